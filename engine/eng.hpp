// Choice-stream PBT engine + forked executor (one case = one process).
// Header-only; used by every harness. No dependency on mimalloc.
#pragma once
#include <cstdint>
#include <cstdio>
#include <cstdlib>
#include <cstring>
#include <cstdarg>
#include <cerrno>
#include <string>
#include <vector>
#include <map>
#include <set>
#include <unordered_set>
#include <functional>
#include <sstream>
#include <fstream>
#include <algorithm>
#include <unistd.h>
#include <signal.h>
#include <sys/wait.h>
#include <sys/personality.h>
#include <sys/time.h>
#include <sys/resource.h>
#include <time.h>
#include <fcntl.h>
#include <poll.h>

namespace eng {

// ---------------------------------------------------------------- choice stream
static inline uint64_t splitmix64(uint64_t& s) {
  uint64_t z = (s += 0x9E3779B97F4A7C15ull);
  z = (z ^ (z >> 30)) * 0xBF58476D1CE4E5B9ull;
  z = (z ^ (z >> 27)) * 0x94D049BB133111EBull;
  return z ^ (z >> 31);
}
static inline uint64_t mix(uint64_t a, uint64_t b) { uint64_t s = a * 0x9E3779B97F4A7C15ull + b; return splitmix64(s); }

// Every random choice a generator makes is a draw from this stream. Two backings:
// a splitmix64 stream (seeded random) or a finite byte buffer (libFuzzer / saved stream).
struct Chooser {
  const uint8_t* buf = nullptr; size_t len = 0, pos = 0; uint64_t sm = 0; bool finite = false;
  explicit Chooser(uint64_t seed) : sm(seed), finite(false) {}
  Chooser(const uint8_t* b, size_t n) : buf(b), len(n), finite(true) {}
  bool exhausted() const { return finite && pos >= len; }
  uint64_t bits(int nbytes) {
    if (!finite) { uint64_t v = splitmix64(sm); return nbytes >= 8 ? v : (v & ((1ull << (8*nbytes)) - 1)); }
    uint64_t v = 0; for (int i = 0; i < nbytes; i++) { v = (v << 8) | (pos < len ? buf[pos] : 0); pos++; } return v;
  }
  // uniform in [lo,hi] (inclusive); uses as few bytes as needed so fuzz mutations stay local
  uint64_t range(uint64_t lo, uint64_t hi) {
    if (hi <= lo) return lo;
    uint64_t span = hi - lo; int nb = 1; while (nb < 8 && (span >> (8*nb)) != 0) nb++;
    uint64_t v = bits(nb);
    return span == UINT64_MAX ? v : lo + (v % (span + 1));
  }
  bool chance(unsigned num, unsigned den) { return range(0, den - 1) < num; }
  size_t pick(size_t n) { return n <= 1 ? 0 : (size_t)range(0, n - 1); }
  size_t weighted(const std::vector<unsigned>& w) {
    uint64_t tot = 0; for (auto x : w) tot += x; if (tot == 0) return 0;
    uint64_t r = range(0, tot - 1); for (size_t i = 0; i < w.size(); i++) { if (r < w[i]) return i; r -= w[i]; } return w.size() - 1;
  }
  template <class T> const T& of(const std::vector<T>& v) { return v[pick(v.size())]; }
};

// ---------------------------------------------------------------- IR
struct Op {
  std::string name;
  std::vector<std::pair<std::string, std::string>> kv;
  Op() {}
  explicit Op(const std::string& n) : name(n) {}
  Op& s(const std::string& k, const std::string& v) { kv.emplace_back(k, v); return *this; }
  Op& u(const std::string& k, uint64_t v) { kv.emplace_back(k, std::to_string(v)); return *this; }
  Op& i(const std::string& k, int64_t v) { kv.emplace_back(k, std::to_string(v)); return *this; }
  bool has(const std::string& k) const { for (auto& p : kv) if (p.first == k) return true; return false; }
  std::string str(const std::string& k, const std::string& def = "") const { for (auto& p : kv) if (p.first == k) return p.second; return def; }
  uint64_t num(const std::string& k, uint64_t def = 0) const {
    for (auto& p : kv) if (p.first == k) return strtoull(p.second.c_str(), nullptr, 0);
    return def;
  }
  int64_t snum(const std::string& k, int64_t def = 0) const {
    for (auto& p : kv) if (p.first == k) return strtoll(p.second.c_str(), nullptr, 0);
    return def;
  }
  void set(const std::string& k, const std::string& v) { for (auto& p : kv) if (p.first == k) { p.second = v; return; } kv.emplace_back(k, v); }
  std::string text() const { std::string t = name; for (auto& p : kv) { t += ' '; t += p.first; t += '='; t += p.second; } return t; }
};
typedef std::vector<Op> Case;

static inline std::string case_text(const Case& c) { std::string t; for (auto& o : c) { t += o.text(); t += '\n'; } return t; }
static inline Case parse_case(const std::string& text) {
  Case c; std::istringstream in(text); std::string line;
  while (std::getline(in, line)) {
    size_t h = line.find('#'); if (h != std::string::npos) line = line.substr(0, h);
    std::istringstream ls(line); std::string tok; Op op; bool first = true;
    while (ls >> tok) {
      if (first) { op.name = tok; first = false; continue; }
      size_t e = tok.find('='); if (e == std::string::npos) op.kv.emplace_back(tok, "1"); else op.kv.emplace_back(tok.substr(0, e), tok.substr(e + 1));
    }
    if (!first) c.push_back(op);
  }
  return c;
}
static inline uint64_t hash_text(const std::string& t) { uint64_t h = 1469598103934665603ull; for (unsigned char ch : t) { h ^= ch; h *= 1099511628211ull; } return h; }
static inline std::string read_file(const std::string& path) { std::ifstream f(path); std::stringstream ss; ss << f.rdbuf(); return ss.str(); }
static inline void write_file(const std::string& path, const std::string& s) { std::ofstream f(path); f << s; }

static inline std::string json_escape(const std::string& s) {
  std::string o; for (unsigned char c : s) { if (c == '"' || c == '\\') { o += '\\'; o += c; } else if (c == '\n') o += "\\n"; else if (c < 0x20) { char b[8]; snprintf(b, sizeof b, "\\u%04x", c); o += b; } else o += c; } return o;
}

// ---------------------------------------------------------------- child → parent record
enum { ST_PASS = 0, ST_FAIL = 1, ST_SKIP = 2 };
#define ENG_NCOUNTERS 24
struct Result {
  int32_t  status;           // ST_*
  uint32_t nontrivial;       // 1 = meets the property's non-triviality rule
  uint64_t flags;            // class bits (harness defined)
  uint64_t counters[ENG_NCOUNTERS];
  char     clause[64];       // violated oracle clause (stable id used as failure signature)
  char     msg[400];
};

// The harness implements these.
struct Harness {
  uint64_t seed = 1;           // VERIF_SEED of this run (set by main_driver)
  int timeout_s = 60;
  virtual ~Harness() {}
  virtual std::vector<std::string> flag_names() = 0;     // names of Result.flags bits
  virtual std::vector<std::string> counter_names() = 0;  // names of Result.counters
  virtual Case generate(const std::string& mode, Chooser& ch, uint64_t case_index) = 0;
  virtual void execute(const std::string& mode, const Case& c, Result& r) = 0;   // runs in the forked child
  virtual void zygote_init(const std::string& mode) {}
};

static int g_result_fd = -1;
static Result* g_cur = nullptr;
// to be used by harnesses: report failure and leave the child at once
[[noreturn]] static inline void fail_now(const char* clause, const char* fmt, ...) {
  Result local; Result* r = g_cur ? g_cur : &local; if (!g_cur) memset(&local, 0, sizeof local);
  r->status = ST_FAIL; snprintf(r->clause, sizeof r->clause, "%s", clause);
  va_list ap; va_start(ap, fmt); vsnprintf(r->msg, sizeof r->msg, fmt, ap); va_end(ap);
  if (g_result_fd >= 0) { ssize_t w = write(g_result_fd, r, sizeof *r); (void)w; }
  _exit(1);
}
static volatile long g_cur_op = -1;   // index of the op being executed (for crash reports)
static void crash_handler(int sig, siginfo_t* si, void*) {
  if (g_cur && g_result_fd >= 0) {
    g_cur->status = ST_FAIL;
    const char* nm = sig == SIGSEGV ? "SEGV" : sig == SIGBUS ? "BUS" : sig == SIGABRT ? "ABRT" : sig == SIGFPE ? "FPE" : sig == SIGILL ? "ILL" : "SIG";
    snprintf(g_cur->clause, sizeof g_cur->clause, "crash:%s", nm);
    snprintf(g_cur->msg, sizeof g_cur->msg, "signal %d at op #%ld fault-addr=%p", sig, (long)g_cur_op, si ? si->si_addr : nullptr);
    ssize_t w = write(g_result_fd, g_cur, sizeof *g_cur); (void)w;
  }
  _exit(3);
}
static inline void install_crash_handlers() {
  static char altstack[1 << 16]; stack_t ss; ss.ss_sp = altstack; ss.ss_size = sizeof altstack; ss.ss_flags = 0; sigaltstack(&ss, nullptr);
  struct sigaction sa; memset(&sa, 0, sizeof sa); sa.sa_sigaction = crash_handler; sa.sa_flags = SA_SIGINFO | SA_ONSTACK | SA_RESETHAND;
  int sigs[] = { SIGSEGV, SIGBUS, SIGABRT, SIGFPE, SIGILL };
  for (int s : sigs) sigaction(s, &sa, nullptr);
}

struct Outcome { int status; bool timeout; bool crashed; Result res; };

// run one case in a forked child
static inline Outcome run_forked(Harness& h, const std::string& mode, const Case& c, int timeout_s) {
  Outcome out; memset(&out.res, 0, sizeof out.res); out.timeout = false; out.crashed = false;
  int fds[2]; if (pipe(fds) != 0) { perror("pipe"); exit(2); }
  fflush(stdout); fflush(stderr);
  pid_t pid = fork();
  if (pid < 0) { perror("fork"); exit(2); }
  if (pid == 0) {
    close(fds[0]); g_result_fd = fds[1];
    static Result r; memset(&r, 0, sizeof r); g_cur = &r;
    install_crash_handlers();
    alarm((unsigned)timeout_s);
    h.execute(mode, c, r);
    ssize_t w = write(g_result_fd, &r, sizeof r); (void)w;
    _exit(r.status == ST_FAIL ? 1 : 0);
  }
  close(fds[1]);
  size_t got = 0; char* dst = (char*)&out.res;
  while (got < sizeof(Result)) { ssize_t n = read(fds[0], dst + got, sizeof(Result) - got); if (n <= 0) { if (n < 0 && errno == EINTR) continue; break; } got += (size_t)n; }
  close(fds[0]);
  int st = 0; while (waitpid(pid, &st, 0) < 0 && errno == EINTR) {}
  if (WIFSIGNALED(st)) {
    if (WTERMSIG(st) == SIGALRM) { out.timeout = true; out.status = ST_SKIP; snprintf(out.res.clause, sizeof out.res.clause, "timeout"); return out; }
    out.crashed = true; out.status = ST_FAIL;
    if (got < sizeof(Result) || out.res.status != ST_FAIL) { snprintf(out.res.clause, sizeof out.res.clause, "crash:sig%d", WTERMSIG(st)); snprintf(out.res.msg, sizeof out.res.msg, "child killed by signal %d", WTERMSIG(st)); }
    out.res.status = ST_FAIL; return out;
  }
  int ec = WEXITSTATUS(st);
  if (got == sizeof(Result) && ec == 0) { out.status = out.res.status; return out; }
  if (got == sizeof(Result) && out.res.status == ST_FAIL) { out.status = ST_FAIL; out.crashed = (ec == 3); return out; }
  // no (complete) record: sanitizer exit or unexpected exit code
  out.status = ST_FAIL; out.res.status = ST_FAIL; out.crashed = true;
  snprintf(out.res.clause, sizeof out.res.clause, ec == 99 ? "crash:asan" : "crash:exit");
  snprintf(out.res.msg, sizeof out.res.msg, "child exited with code %d without a result record", ec);
  return out;
}

static inline double now_s() { struct timespec t; clock_gettime(CLOCK_MONOTONIC, &t); return t.tv_sec + t.tv_nsec * 1e-9; }

// ---------------------------------------------------------------- command line driver
//   run    : --mode M --seed S --worker W --nworkers N --cases K [--time T] --out DIR
//   replay : --mode M --replay FILE          exit 0 = pass, 1 = fail (prints clause), 4 = inconclusive
//   gen    : --mode M --seed S --gen INDEX   print the IR of one case
static inline int main_driver(Harness& h, int argc, char** argv) {
  std::map<std::string, std::string> a;
  for (int i = 1; i < argc; i++) { std::string k = argv[i]; if (k.rfind("--", 0) == 0) { std::string v = (i + 1 < argc && strncmp(argv[i+1], "--", 2) != 0) ? argv[++i] : "1"; a[k.substr(2)] = v; } }
  // pin the address-space layout (re-exec once)
  if (!getenv("VF_NO_REEXEC")) {
    int pers = personality(0xffffffff);
    if (pers != -1 && !(pers & ADDR_NO_RANDOMIZE)) {
      if (personality(pers | ADDR_NO_RANDOMIZE) != -1) { setenv("VF_NO_REEXEC", "1", 1); execv("/proc/self/exe", argv); }
    }
  }
  std::string mode = a.count("mode") ? a["mode"] : "C01";
  uint64_t seed = a.count("seed") ? strtoull(a["seed"].c_str(), nullptr, 0) : 1;
  int timeout_s = a.count("case-timeout") ? atoi(a["case-timeout"].c_str()) : 60;
  h.seed = seed; h.timeout_s = timeout_s;
  h.zygote_init(mode);

  if (a.count("gen")) {
    uint64_t idx = strtoull(a["gen"].c_str(), nullptr, 0);
    Chooser ch(mix(seed, idx)); Case c = h.generate(mode, ch, idx); fputs(case_text(c).c_str(), stdout); return 0;
  }
  if (a.count("replay")) {
    Case c = parse_case(read_file(a["replay"]));
    if (a.count("inproc")) { Result r; memset(&r, 0, sizeof r); g_cur = &r; h.execute(mode, c, r); printf("%s clause=%s %s\n", r.status == ST_FAIL ? "FAIL" : "PASS", r.clause, r.msg); return r.status == ST_FAIL ? 1 : 0; }
    Outcome o = run_forked(h, mode, c, timeout_s);
    if (o.timeout) { printf("INCONCLUSIVE timeout\n"); return 4; }
    if (o.status == ST_FAIL) { printf("FAIL clause=%s %s\n", o.res.clause, o.res.msg); return 1; }
    printf("PASS nontrivial=%u flags=0x%llx\n", o.res.nontrivial, (unsigned long long)o.res.flags); return 0;
  }

  // run mode
  uint64_t worker = a.count("worker") ? strtoull(a["worker"].c_str(), nullptr, 0) : 0;
  uint64_t nworkers = a.count("nworkers") ? strtoull(a["nworkers"].c_str(), nullptr, 0) : 1;
  uint64_t ncases = a.count("cases") ? strtoull(a["cases"].c_str(), nullptr, 0) : 100;   // total over all workers
  double tlimit = a.count("time") ? atof(a["time"].c_str()) : 1e9;
  int maxfail = a.count("max-failures") ? atoi(a["max-failures"].c_str()) : 3;
  std::string outdir = a.count("out") ? a["out"] : ".";
  auto fn = h.flag_names(); auto cn = h.counter_names();
  std::vector<uint64_t> flag_hist(64, 0), csum(ENG_NCOUNTERS, 0);
  std::unordered_set<uint64_t> nontriv; std::vector<std::string> samples_nt, samples_tr;
  uint64_t evals = 0, timeouts = 0, skipped = 0, nfail = 0, ops_total = 0; bool time_cut = false;
  std::vector<std::string> fail_json; std::vector<uint64_t> timeout_idx;
  double t0 = now_s();
  for (uint64_t i = worker; i < ncases; i += nworkers) {
    if (now_s() - t0 > tlimit) { time_cut = true; break; }
    Chooser ch(mix(seed, i)); Case c = h.generate(mode, ch, i);
    if (c.size() == 1 && c[0].name == "skip") { skipped++; continue; }   // enumeration slot without a case
    Outcome o = run_forked(h, mode, c, timeout_s);
    evals++; ops_total += c.size();
    if (o.timeout) { timeouts++; if (timeout_idx.size() < 8) timeout_idx.push_back(i); continue; }
    if (o.status == ST_SKIP) { skipped++; continue; }
    for (int b = 0; b < 64; b++) if (o.res.flags & (1ull << b)) flag_hist[b]++;
    for (int k = 0; k < ENG_NCOUNTERS; k++) csum[k] += o.res.counters[k];
    std::string text = case_text(c);
    if (o.status == ST_FAIL) {
      nfail++;
      char name[256]; snprintf(name, sizeof name, "%s/fail-w%llu-c%llu.case", outdir.c_str(), (unsigned long long)worker, (unsigned long long)i);
      write_file(name, text);
      std::string fj = std::string("{\"file\":\"") + name + "\",\"clause\":\"" + json_escape(o.res.clause) + "\",\"msg\":\"" + json_escape(o.res.msg) + "\",\"case_index\":" + std::to_string(i) + "}";
      fail_json.push_back(fj);
      if ((int)nfail >= maxfail) break;
      continue;
    }
    if (o.res.nontrivial) { if (nontriv.insert(hash_text(text)).second && samples_nt.size() < 2) samples_nt.push_back(text); }
    else if (samples_tr.size() < 1) samples_tr.push_back(text);
  }
  // worker summary (json) + hash file
  {
    char name[256]; snprintf(name, sizeof name, "%s/hashes-w%llu.bin", outdir.c_str(), (unsigned long long)worker);
    FILE* f = fopen(name, "wb"); if (f) { for (uint64_t x : nontriv) fwrite(&x, 8, 1, f); fclose(f); }
  }
  std::string j = "{";
  j += "\"worker\":" + std::to_string(worker) + ",\"evaluations\":" + std::to_string(evals) + ",\"nontrivial\":" + std::to_string(nontriv.size());
  j += ",\"timeouts\":" + std::to_string(timeouts) + ",\"skipped\":" + std::to_string(skipped) + ",\"ops\":" + std::to_string(ops_total);
  j += ",\"timeout_cases\":["; for (size_t s = 0; s < timeout_idx.size(); s++) { if (s) j += ","; j += std::to_string(timeout_idx[s]); } j += "]";
  j += ",\"time_cut\":" + std::string(time_cut ? "true" : "false") + ",\"wall_s\":" + std::to_string(now_s() - t0);
  j += ",\"classes\":{"; for (size_t b = 0; b < fn.size(); b++) { if (b) j += ","; j += "\"" + fn[b] + "\":" + std::to_string(flag_hist[b]); } j += "}";
  j += ",\"counters\":{"; for (size_t k = 0; k < cn.size() && k < ENG_NCOUNTERS; k++) { if (k) j += ","; j += "\"" + cn[k] + "\":" + std::to_string(csum[k]); } j += "}";
  j += ",\"samples_nontrivial\":["; for (size_t s = 0; s < samples_nt.size(); s++) { if (s) j += ","; j += "\"" + json_escape(samples_nt[s]) + "\""; } j += "]";
  j += ",\"samples_trivial\":["; for (size_t s = 0; s < samples_tr.size(); s++) { if (s) j += ","; j += "\"" + json_escape(samples_tr[s]) + "\""; } j += "]";
  j += ",\"failures\":["; for (size_t s = 0; s < fail_json.size(); s++) { if (s) j += ","; j += fail_json[s]; } j += "]}";
  char name[256]; snprintf(name, sizeof name, "%s/worker-%llu.json", outdir.c_str(), (unsigned long long)worker);
  write_file(name, j);
  return 0;
}

} // namespace eng
