/* see vf_shim.h */
#define _GNU_SOURCE
#include "vf_shim.h"
#include <sys/mman.h>
#include <sys/syscall.h>
#include <unistd.h>
#include <errno.h>
#include <stdarg.h>
#include <time.h>
#include <string.h>
#include <stdatomic.h>

#define VF_MAX_REGIONS 8192

static atomic_flag   vf_lock = ATOMIC_FLAG_INIT;
static vf_region_t   vf_tab[VF_MAX_REGIONS];
static size_t        vf_ntab;
static long          vf_counts[VF_NKINDS];
static int           vf_arm_kind = -1;
static long          vf_arm_k;
static int           vf_arm_persistent;
static long          vf_arm_base;       /* count of that kind when armed */
static long          vf_hits;
static vf_event_fn   vf_event;
static int           vf_virtual_clock;
static long          vf_clock_ms = 1000000;  /* virtual epoch: 1000 s */
static size_t        vf_commit_min_len;  /* mprotect(RW) calls of at most this length are never refused nor counted as positions */
static uint64_t      vf_rng_state = 0x5eed1234abcdull;  /* deterministic by default; 0 = kernel */

static void lock(void)   { while (atomic_flag_test_and_set_explicit(&vf_lock, memory_order_acquire)) { } }
static void unlock(void) { atomic_flag_clear_explicit(&vf_lock, memory_order_release); }

static void tab_add(uintptr_t a, size_t l) {
  if (vf_ntab >= VF_MAX_REGIONS) return;
  size_t i = vf_ntab;
  while (i > 0 && vf_tab[i-1].addr > a) { vf_tab[i] = vf_tab[i-1]; i--; }
  vf_tab[i].addr = a; vf_tab[i].len = l; vf_ntab++;
}

static void tab_remove(uintptr_t a, size_t l) {
  uintptr_t e = a + l;
  for (size_t i = 0; i < vf_ntab; ) {
    uintptr_t ra = vf_tab[i].addr, re = ra + vf_tab[i].len;
    if (re <= a || ra >= e) { i++; continue; }
    /* overlap */
    if (ra >= a && re <= e) {            /* fully covered: delete */
      memmove(&vf_tab[i], &vf_tab[i+1], (vf_ntab - i - 1) * sizeof(vf_region_t));
      vf_ntab--; continue;
    }
    if (ra < a && re > e) {              /* hole in the middle: split */
      vf_tab[i].len = a - ra;
      tab_add(e, re - e);
      i++; continue;
    }
    if (ra < a) { vf_tab[i].len = a - ra; i++; continue; }   /* tail cut */
    /* head cut */
    vf_tab[i].addr = e; vf_tab[i].len = re - e; i++;
  }
}

/* returns 1 if this call must be refused */
static int count_and_check(int kind) {
  int refuse = 0;
  lock();
  long n = vf_counts[kind]++;
  if (vf_arm_kind == kind) {
    long rel = n - vf_arm_base;
    if (rel == vf_arm_k || (vf_arm_persistent && rel > vf_arm_k)) { refuse = 1; vf_hits++; }
  }
  unlock();
  return refuse;
}

void vf_reset_counters(void) { lock(); memset(vf_counts, 0, sizeof(vf_counts)); vf_hits = 0; if (vf_arm_kind>=0) vf_arm_base = 0; unlock(); }
long vf_count(int kind) { return vf_counts[kind]; }
void vf_arm(int kind, long k, int persistent) { lock(); vf_arm_kind = kind; vf_arm_k = k; vf_arm_persistent = persistent; vf_arm_base = vf_counts[kind]; unlock(); }
void vf_disarm(void) { lock(); vf_arm_kind = -1; unlock(); }
long vf_faults_hit(void) { return vf_hits; }
void vf_set_event_fn(vf_event_fn fn) { vf_event = fn; }
void vf_set_commit_min_len(size_t len) { vf_commit_min_len = len; }

size_t vf_region_count(void) { return vf_ntab; }
size_t vf_regions(vf_region_t* out, size_t max) {
  lock(); size_t n = vf_ntab < max ? vf_ntab : max; memcpy(out, vf_tab, n * sizeof(vf_region_t)); unlock(); return n;
}
size_t vf_mapped_bytes(void) { size_t s = 0; lock(); for (size_t i = 0; i < vf_ntab; i++) s += vf_tab[i].len; unlock(); return s; }

static size_t resident_in(uintptr_t a, size_t len) {
  static unsigned char vec[1 << 16];   /* 64Ki pages = 256 MiB per call */
  size_t res = 0;
  while (len > 0) {
    size_t chunk = len > ((size_t)sizeof(vec) << 12) ? ((size_t)sizeof(vec) << 12) : len;
    if (mincore((void*)a, chunk, vec) == 0) {
      size_t np = (chunk + 4095) >> 12;
      for (size_t i = 0; i < np; i++) res += (vec[i] & 1);
    }
    a += chunk; len -= chunk;
  }
  return res;
}
size_t vf_resident_pages(void) {
  size_t res = 0; lock();
  for (size_t i = 0; i < vf_ntab; i++) res += resident_in(vf_tab[i].addr, vf_tab[i].len);
  unlock(); return res;
}
size_t vf_resident_pages_in(uintptr_t lo, uintptr_t hi) {
  size_t res = 0; lock();
  for (size_t i = 0; i < vf_ntab; i++) {
    uintptr_t a = vf_tab[i].addr, e = a + vf_tab[i].len;
    if (a < lo) a = lo; if (e > hi) e = hi;
    if (a < e) res += resident_in(a, e - a);
  }
  unlock(); return res;
}

void vf_clock_virtual(int on) { vf_virtual_clock = on; }
void vf_clock_advance(long ms) { __atomic_add_fetch(&vf_clock_ms, ms, __ATOMIC_SEQ_CST); }
long vf_clock_now_ms(void) { return vf_clock_ms; }
void vf_random_seed(uint64_t seed) { vf_rng_state = seed; }

/* ---- the interposed calls ---- */

void* vf_mmap(void* addr, size_t len, int prot, int flags, int fd, off_t off) {
  if (count_and_check(VF_MAP)) {
    if (vf_event) vf_event(VF_MAP, addr, len, prot, 1);
    errno = ENOMEM; return MAP_FAILED;
  }
  void* p = mmap(addr, len, prot, flags, fd, off);
  if (p != MAP_FAILED) {
    lock(); tab_add((uintptr_t)p, len); unlock();
    if (vf_event) vf_event(VF_MAP, p, len, prot, 0);
  }
  return p;
}

int vf_munmap(void* addr, size_t len) {
  if (count_and_check(VF_UNMAP)) {
    if (vf_event) vf_event(VF_UNMAP, addr, len, 0, 1);
    errno = EINVAL; return -1;
  }
  /* report before the memory disappears so the harness can still inspect its model */
  if (vf_event) vf_event(VF_UNMAP, addr, len, 0, 0);
  int r = munmap(addr, len);
  if (r == 0) { lock(); tab_remove((uintptr_t)addr, len); unlock(); }
  return r;
}

int vf_mprotect(void* addr, size_t len, int prot) {
  int kind = (prot == PROT_NONE ? VF_PROTECT : VF_COMMIT);
  if (kind == VF_COMMIT && len <= vf_commit_min_len) { return mprotect(addr, len, prot); }
  if (count_and_check(kind)) {
    if (vf_event) vf_event(kind, addr, len, prot, 1);
    errno = ENOMEM; return -1;
  }
  if (kind == VF_PROTECT && vf_event) vf_event(kind, addr, len, prot, 0);
  int r = mprotect(addr, len, prot);
  if (kind == VF_COMMIT && r == 0 && vf_event) vf_event(kind, addr, len, prot, 0);
  return r;
}

int vf_madvise(void* addr, size_t len, int advice) {
  int purge = (advice == MADV_DONTNEED
#ifdef MADV_FREE
               || advice == MADV_FREE
#endif
              );
  int kind = purge ? VF_ADVISE : VF_ADVISE_OTHER;
  if (count_and_check(kind)) {
    if (vf_event) vf_event(kind, addr, len, advice, 1);
    errno = ENOMEM; return -1;
  }
  if (purge && vf_event) vf_event(kind, addr, len, advice, 0);
  return madvise(addr, len, advice);
}

int vf_clock_gettime(clockid_t id, struct timespec* ts) {
  if (!vf_virtual_clock) return clock_gettime(id, ts);
  long ms = __atomic_load_n(&vf_clock_ms, __ATOMIC_SEQ_CST);
  ts->tv_sec = ms / 1000; ts->tv_nsec = (ms % 1000) * 1000000L;
  return 0;
}

static uint64_t splitmix(void) {
  uint64_t z = (vf_rng_state += 0x9E3779B97F4A7C15ull);
  z = (z ^ (z >> 30)) * 0xBF58476D1CE4E5B9ull;
  z = (z ^ (z >> 27)) * 0x94D049BB133111EBull;
  return z ^ (z >> 31);
}

long vf_syscall(long nr, ...) {
  va_list ap; va_start(ap, nr);
  long a1 = va_arg(ap, long), a2 = va_arg(ap, long), a3 = va_arg(ap, long);
  long a4 = va_arg(ap, long), a5 = va_arg(ap, long), a6 = va_arg(ap, long);
  va_end(ap);
#ifdef SYS_getrandom
  if (nr == SYS_getrandom && vf_rng_state != 0) {
    unsigned char* b = (unsigned char*)a1; size_t n = (size_t)a2;
    lock();
    for (size_t i = 0; i < n; ) {
      uint64_t r = splitmix();
      for (int j = 0; j < 8 && i < n; j++, i++) { b[i] = (unsigned char)(r >> (8*j)); }
    }
    unlock();
    return (long)n;
  }
#endif
  return syscall(nr, a1, a2, a3, a4, a5, a6);
}
