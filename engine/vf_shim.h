/* OS shim between mimalloc's unix primitives and the kernel.
   mimalloc (src/static.c) is compiled with
     -Dmmap=vf_mmap -Dmunmap=vf_munmap -Dmprotect=vf_mprotect -Dmadvise=vf_madvise
     -Dclock_gettime=vf_clock_gettime -Dsyscall=vf_syscall
   so every OS memory call, the clock and getrandom go through this TU.
   Transparent pass-through unless a harness arms it. Never calls malloc. */
#ifndef VF_SHIM_H
#define VF_SHIM_H
#include <stddef.h>
#include <stdint.h>
#ifdef __cplusplus
extern "C" {
#endif

enum vf_kind {
  VF_MAP = 0,       /* mmap                                  */
  VF_UNMAP,         /* munmap                                */
  VF_COMMIT,        /* mprotect(..., PROT_READ|PROT_WRITE)   */
  VF_PROTECT,       /* mprotect(..., PROT_NONE)              */
  VF_ADVISE,        /* madvise(DONTNEED|FREE) (purge)        */
  VF_ADVISE_OTHER,  /* any other madvise (e.g. HUGEPAGE)     */
  VF_NKINDS
};

typedef struct vf_region_s { uintptr_t addr; size_t len; } vf_region_t;

/* event callback: called (outside the shim lock) after a successful call of the given kind;
   `failed`=1 when the call was refused by an armed fault. */
typedef void (*vf_event_fn)(int kind, void* addr, size_t len, int arg, int failed);

void   vf_reset_counters(void);
long   vf_count(int kind);                 /* calls of that kind seen so far (incl. refused) */
void   vf_arm(int kind, long k, int persistent); /* refuse the k-th (0-based, counted from now) call of kind; persistent: and all later ones */
void   vf_disarm(void);
long   vf_faults_hit(void);
void   vf_set_event_fn(vf_event_fn fn);
void   vf_set_commit_min_len(size_t len);  /* exclude small mprotect(RW) calls (guard-page unprotects) from fault injection */

/* mapping table (only mappings created through vf_mmap, i.e. by mimalloc) */
size_t vf_region_count(void);
size_t vf_regions(vf_region_t* out, size_t max);
size_t vf_mapped_bytes(void);
size_t vf_resident_pages(void);            /* mincore() over all recorded regions */
size_t vf_resident_pages_in(uintptr_t lo, uintptr_t hi);

/* virtual clock (milliseconds). Off: real clock. */
void   vf_clock_virtual(int on);
void   vf_clock_advance(long ms);
long   vf_clock_now_ms(void);

/* deterministic getrandom */
void   vf_random_seed(uint64_t seed);      /* 0 = pass through to the kernel */

#ifdef __cplusplus
}
#endif
#endif
