#!/usr/bin/env python3
"""Runs the libFuzzer target for C20 and prints the JSON summary the custom runner expects.
usage: opts_fuzz_driver.py <fuzz-binary> --tier T --seed N | --replay <artifact>"""
import sys, os, subprocess, json, re, tempfile, shutil, glob
exe = sys.argv[1]; args = sys.argv[2:]
env = dict(os.environ, ASAN_OPTIONS="detect_leaks=0:abort_on_error=0:exitcode=99")
if "--replay" in args:
    art = args[args.index("--replay") + 1]
    # the replay file of a fuzz finding is the raw artifact (or a text file naming it)
    data = open(art, "rb").read()
    m = re.search(rb"artifact=(\S+)", data)
    path = m.group(1).decode() if m else art
    r = subprocess.run([exe, path], env=env, stdout=subprocess.PIPE, stderr=subprocess.STDOUT)
    bad = r.returncode != 0
    print("FAIL clause=fuzz-artifact reproduces" if bad else "PASS"); sys.exit(1 if bad else 0)
tier = args[args.index("--tier") + 1] if "--tier" in args else "quick"
seed = int(args[args.index("--seed") + 1]) if "--seed" in args else 1
runs = 3000000 if tier == "thorough" else 150000
work = tempfile.mkdtemp(prefix="optsfuzz-", dir=os.path.dirname(exe)); corpus = os.path.join(work, "corpus"); os.makedirs(corpus)
seeds = [b"\x00\x17\x00123K", b"\x01\x0f\x01true", b"\x04\x01\x02" + b"4GiB", b"\x02\x05\x00-17", b"\x07" + bytes(range(1, 12)), b"\x08" + bytes(range(20, 31)), b"\x09\x05\x10\x20", b"\x0a\x01\x00\x00", b"\x0b\x03" + b"\x7f" * 8, b"\x03\x09\x03off"]
for i, s in enumerate(seeds): open(os.path.join(corpus, "seed%d" % i), "wb").write(s)
nseed = len(seeds)
cmd = [exe, "-runs=%d" % runs, "-seed=%d" % (seed if seed else 1), "-max_len=300", "-print_final_stats=1", "-artifact_prefix=" + work + "/", "-workers=0", "-jobs=0", corpus]
# several independent fuzzer processes (different sub-seeds) share the corpus directory
procs = [subprocess.Popen(cmd[:2] + ["-seed=%d" % (seed * 1000 + j + 1)] + cmd[3:], env=env, stdout=subprocess.PIPE, stderr=subprocess.STDOUT, text=True) for j in range(8 if tier == "thorough" else 4)]
execs = 0; viol = []
for p in procs:
    out, _ = p.communicate()
    m = re.search(r"stat::number_of_executed_units:\s*(\d+)", out); execs += int(m.group(1)) if m else 0
    if p.returncode != 0:
        arts = sorted(glob.glob(os.path.join(work, "crash-*")))
        msg = [l for l in out.splitlines() if "SEMANTIC-VIOLATION" in l or "ERROR: AddressSanitizer" in l or "runtime error" in l]
        viol.append((arts[-1] if arts else "", (msg[0] if msg else "fuzz target died with exit %d" % p.returncode)[:300]))
ncorpus = len(os.listdir(corpus))
vl = []
for art, msg in viol[:3]:
    keep = ""
    if art:
        keep = os.path.join(os.path.dirname(exe), "artifact-" + os.path.basename(art)); shutil.copy(art, keep)
    vl.append({"msg": "libFuzzer: " + msg, "replay": "artifact=%s" % keep})
shutil.rmtree(work, ignore_errors=True)
print(json.dumps({"evaluations": execs, "distinct_nontrivial": max(0, ncorpus - nseed), "violations": len(viol), "classes": {"libfuzzer_executions": execs, "libfuzzer_corpus_units_added": max(0, ncorpus - nseed)},
                  "samples": ["libFuzzer target opts_fuzz (structure-aware decode of env values / format seeds / buffer sizes); %d executions, %d inputs added new coverage to the corpus (counted as distinct non-trivial)" % (execs, max(0, ncorpus - nseed))],
                  "violation_list": vl}))
