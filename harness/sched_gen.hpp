// Program + schedule generator for the `sched` harness.
// Case index -> (program j = idx / PER, schedule f = idx % PER). f == 0 is the baseline (no preemption), which is also the probe that
// yields the step count N, the per-step trace and the weak-CAS count. f in [1, 1+S1) enumerates single preemptions (all steps up to a cap,
// then strided) x target threads; the remaining slots are sampled pairs/triples biased to conflicting steps, PCT-style random change
// points and spurious weak-CAS failures.
#pragma once

struct SchedGen {
  uint64_t cur_prog = UINT64_MAX; Case base; uint32_t nsteps = 0, nweak = 0; int nthreads = 0; std::vector<uint32_t> conflict_steps; bool probe_ok = false;
  struct AddrInfo { uint32_t addr; uint32_t cnt[4]; uint32_t writes[4]; int nthr; uint8_t nseq[4]; uint8_t seq[4][32]; /* kinds of the first 32 accesses per thread */ }; std::vector<AddrInfo> shared_addrs;   // addresses that >= 2 threads access, at least once with a write: per-thread access counts
  static const uint64_t PER = 400;

  // ---- programs
  static size_t pick_class(Chooser& ch, const std::string& mode) {
    static const std::vector<size_t> c = { 16, 48, 8*KiB, 8*KiB, 64*KiB, 100*KiB, 300*KiB, 1*MiB, 1000, 200 };
    (void)mode; return ch.of(c);
  }
  // one page of the owner, two other threads free blocks of it while the owner collects / allocates the same class: the three-party races on
  // page->xthread_free and heap->thread_delayed_free (first remote free = delayed path, second = direct push, owner = list take-over)
  Case gen_contended_program(const std::string& mode, Chooser& ch) {
    Case c; static const std::vector<size_t> cls = { 2048, 2048, 1000, 8*KiB, 8*KiB, 16, 300, 20000, 60000, 100*KiB }; size_t n = ch.of(cls); size_t n2 = ch.chance(1, 3) ? ch.of(cls) : n;
    int k = (int)ch.range(3, 12);   /* (classes with 5-8 blocks per page make the owner's later allocations take the generic path, which collects the page's thread-free list) */ auto O = [&](Op op, int t) { op.u("t", (uint64_t)t); c.push_back(op); };
    bool two_pages = ch.chance(1, 2); if (two_pages && n2 == n) n2 = (n == 2048 ? 8*KiB : 2048);   // blocks alternate between two classes: two pages whose first remote frees both go to the heap's delayed list
    for (int s = 0; s < k; s++) O(Op("A").u("s", (uint64_t)s).u("n", (two_pages ? (s % 2 ? n2 : n) : (s == k - 1 ? n2 : n))), 0);
    std::vector<int> order(k); for (int i = 0; i < k; i++) order[i] = i; for (int i = k - 1; i > 0; i--) std::swap(order[i], order[ch.pick((size_t)i + 1)]);
    if (two_pages && k >= 2 && (order[0] % 2) == (order[1] % 2)) { for (int i = 2; i < k; i++) if ((order[i] % 2) != (order[0] % 2)) { std::swap(order[1], order[i]); break; } }   // thread 1 and thread 2 start on different pages
    int nf = (int)ch.range(k >= 4 ? 3 : 2, (uint64_t)k); for (int i = 0; i < nf; i++) O(Op("F").u("s", (uint64_t)order[i]), 1 + (i % 2 == 0 ? 0 : 1) * (int)1);   // alternate between thread 1 and 2
    int next = k;
    auto owner_work = [&](int cnt) { for (int i = 0; i < cnt; i++) { unsigned w = (unsigned)ch.pick(5);
      if (w == 0) O(Op("C").u("force", ch.chance(1, 4)), 0); else if (w == 1 && nf < k) O(Op("F").u("s", (uint64_t)order[nf++]), 0); else if (w == 2) O(Op("V"), 0); else O(Op("A").u("s", (uint64_t)next++).u("n", n), 0); } };
    owner_work((int)ch.range(1, 6)); O(Op("J"), 0); owner_work((int)ch.range(2, 6));
    O(Op("VA"), 0); for (int s = 0; s < next; s++) O(Op("F").u("s", (uint64_t)s), 0); if (mode == "C02" || mode == "C08") O(Op("Q"), 0);
    for (size_t i = 0; i < c.size(); i++) c[i].u("i", i);
    return c;
  }
  Case gen_program(const std::string& mode, Chooser& ch) {
    if (mode == "C08" && ch.chance(1, 4)) return gen_pc_program(ch);
    if (mode == "C08" && ch.chance(1, 3)) return gen_keeper_program(ch);
    if ((mode == "C02" || mode == "C08") && ch.chance(1, 4)) return gen_contended_program(mode, ch);
    if (mode == "C14") return ch.chance(1, 2) ? gen_bitmap_program(ch) : gen_arena_program(ch);
    Case c; int T = (int)ch.range(2, 3);
    // options
    if (mode == "C09" || ch.chance(1, 4)) {
      if (ch.chance(1, 2)) c.push_back(Op("opt").s("name", "abandoned_reclaim_on_free").u("v", ch.chance(1, 2)));
      if (mode == "C09" && ch.chance(1, 3)) c.push_back(Op("opt").s("name", "disallow_arena_alloc").u("v", 1));
      if (mode == "C09" && ch.chance(1, 3)) c.push_back(Op("opt").s("name", "visit_abandoned").u("v", 1));
      if (mode == "C09" && ch.chance(1, 4)) c.push_back(Op("opt").s("name", "max_segment_reclaim").u("v", ch.chance(1, 2) ? 100 : 0));
      if (mode == "C09" && ch.chance(1, 4)) c.push_back(Op("opt").s("name", "abandoned_page_purge").u("v", 1));
    }
    // slots with an allocating and a freeing thread, ordered by a global rank (no wait cycles)
    int nslots = (int)ch.range(3, 14); size_t cls = pick_class(ch, mode); bool same_class = ch.chance(2, 3);
    struct Ev { int rank; Op op; }; std::vector<Ev> ev; int rank = 0;
    std::vector<int> done_rank(T, 1 << 30);
    bool use_done = (mode == "C09") || ch.chance(1, 5);
    int owner = 0;
    bool heap_ops = (mode == "C10"); int hidx = 1;
    if (heap_ops) ev.push_back({ rank++, Op("HN").u("t", (uint64_t)owner).u("h", (uint64_t)hidx) });
    std::vector<int> alloc_rank(nslots), alloc_thr(nslots);
    for (int s = 0; s < nslots; s++) {
      int a = (mode == "C02" ? (int)ch.pick((size_t)T) : (ch.chance(3, 4) ? owner : (int)ch.pick((size_t)T)));
      size_t n = same_class ? cls : pick_class(ch, mode);
      Op op("A"); op.u("t", (uint64_t)a).u("s", (uint64_t)s).u("n", n); if (heap_ops && a == owner && ch.chance(3, 4)) op.u("h", (uint64_t)hidx);
      alloc_rank[s] = rank; alloc_thr[s] = a; ev.push_back({ rank++, op });
    }
    // frees: later ranks, shuffled
    std::vector<int> order(nslots); for (int i = 0; i < nslots; i++) order[i] = i; for (int i = nslots - 1; i > 0; i--) std::swap(order[i], order[ch.pick((size_t)i + 1)]);
    int nfree = (mode == "C09" ? (int)ch.range((uint64_t)nslots / 2, (uint64_t)nslots) : nslots);
    std::vector<int> exiting; if (use_done) { for (int t = 1; t < T; t++) if (ch.chance(2, 3)) exiting.push_back(t); if (mode == "C09" && exiting.empty()) exiting.push_back(1); }
    for (int k = 0; k < nfree; k++) {
      int s = order[k]; int f = (ch.chance(3, 5) ? (alloc_thr[s] + 1 + (int)ch.pick((size_t)T - 1)) % T : (int)ch.pick((size_t)T));
      ev.push_back({ rank++, Op("F").u("t", (uint64_t)f).u("s", (uint64_t)s) });
      // the owner interleaves its own work
      if (ch.chance(1, 3)) { int t = (int)ch.pick((size_t)T); unsigned w = (unsigned)ch.pick(4);
        if (w == 0) ev.push_back({ rank++, Op("C").u("t", (uint64_t)t).u("force", ch.chance(1, 2)) });
        else if (w == 1) ev.push_back({ rank++, Op("V").u("t", (uint64_t)t) });
        else if (w == 2 && nslots < 60) { int s2 = nslots++; alloc_rank.push_back(rank); alloc_thr.push_back(t); ev.push_back({ rank++, Op("A").u("t", (uint64_t)t).u("s", (uint64_t)s2).u("n", same_class ? cls : pick_class(ch, mode)) }); ev.push_back({ rank + 1000, Op("F").u("t", (uint64_t)((t + 1) % T)).u("s", (uint64_t)s2) }); }
        else if (heap_ops && M_heapop_ok(t, owner)) ev.push_back({ rank++, Op("HC").u("t", (uint64_t)owner).u("h", (uint64_t)hidx).u("force", ch.chance(1, 2)) }); }
    }
    if (heap_ops) { int pos = (int)ch.range((uint64_t)nslots + 1, (uint64_t)rank); ev.push_back({ pos, Op("HD").u("t", (uint64_t)owner).u("h", (uint64_t)hidx) }); }
    // thread ends
    for (int t : exiting) { int pos = (int)ch.range((uint64_t)nslots / 2, (uint64_t)rank + 2); done_rank[t] = pos; }
    std::stable_sort(ev.begin(), ev.end(), [](const Ev& a, const Ev& b) { return a.rank < b.rank; });
    std::vector<bool> thread_done(T, false); std::set<int> dropped;
    for (auto& e : ev) {
      int t = (int)e.op.num("t");
      for (int x : exiting) if (!thread_done[x] && e.rank >= done_rank[x]) { c.push_back(Op("D").u("t", (uint64_t)x)); thread_done[x] = true; }
      if (thread_done[t]) { if (e.op.name == "A") { dropped.insert((int)e.op.num("s")); continue; } e.op.set("t", "0"); if (thread_done[0]) continue; }   // ops of an ended thread: frees move to the owner
      if (e.op.name == "F" && dropped.count((int)e.op.num("s"))) continue;
      c.push_back(e.op);
    }
    for (int x : exiting) if (!thread_done[x]) c.push_back(Op("D").u("t", (uint64_t)x));
    c.push_back(Op("J").u("t", 0));
    if (mode == "C08" || mode == "C10" || mode == "C02") { c.push_back(Op("VA").u("t", 0)); for (int s = 0; s < nslots; s++) c.push_back(Op("F").u("t", 0).u("s", (uint64_t)s)); c.push_back(Op("Q").u("t", 0)); }
    else { c.push_back(Op("VA").u("t", 0)); c.push_back(Op("C").u("t", 0).u("force", 1)); }
    for (size_t i = 0; i < c.size(); i++) c[i].u("i", i);
    return c;
  }
  static bool M_heapop_ok(int t, int owner) { return t == owner || true; }

  void probe(eng::Harness& h, const std::string& mode) {
    probe_ok = false; conflict_steps.clear(); nsteps = 0; nweak = 0;
    if (!g_trace) return; g_trace->nrec = 0; g_trace->nsteps = 0;
    eng::Outcome o = eng::run_forked(h, mode, base, h.timeout_s);
    if (o.status != eng::ST_PASS) return;
    nsteps = g_trace->nsteps; nweak = g_trace->nweakcas; uint32_t n = g_trace->nrec;
    // steps on addresses that more than one thread touches, at least once with a write
    std::unordered_map<uint32_t, uint32_t> who, wr;
    for (uint32_t i = 0; i < n; i++) { who[g_trace->rec[i].addr] |= 1u << g_trace->rec[i].thread; if (g_trace->rec[i].kind != MI_VF_LOAD) wr[g_trace->rec[i].addr] = 1; }
    for (uint32_t i = 0; i < n; i++) { uint32_t w = who[g_trace->rec[i].addr]; if ((w & (w - 1)) != 0 && wr.count(g_trace->rec[i].addr)) conflict_steps.push_back(i + 1); }
    shared_addrs.clear(); { std::map<uint32_t, AddrInfo> m; for (uint32_t i = 0; i < n; i++) { uint32_t a = g_trace->rec[i].addr; uint32_t w = who[a]; if ((w & (w - 1)) == 0 || !wr.count(a)) continue; AddrInfo& ai = m[a]; ai.addr = a; if (g_trace->rec[i].thread < 4) { int tt = g_trace->rec[i].thread; if (ai.nseq[tt] < 32) ai.seq[tt][ai.nseq[tt]++] = g_trace->rec[i].kind; ai.cnt[tt]++; if (g_trace->rec[i].kind != MI_VF_LOAD) ai.writes[tt]++; } }
      for (auto& kv : m) { kv.second.nthr = 0; for (int t = 0; t < 4; t++) if (kv.second.cnt[t]) kv.second.nthr++; shared_addrs.push_back(kv.second); } }
    probe_ok = true;
  }

  Case generate(eng::Harness& h, const std::string& mode, Chooser& ch, uint64_t idx) {
    uint64_t prog = idx / PER, f = idx % PER;
    if (prog != cur_prog) { Chooser pch(eng::mix(eng::mix(h.seed, 0x5C4ED), prog)); base = gen_program(mode, pch); cur_prog = prog; nthreads = 0; for (auto& op : base) if (op.has("t")) nthreads = std::max(nthreads, (int)op.num("t") + 1); probe(h, mode); }
    if (f == 0) return base;
    if (!probe_ok || nsteps == 0) { Case s; s.push_back(Op("skip")); return s; }
    Case c = base; int T = nthreads;
    const char* tier = getenv("VERIF_TIER"); bool thorough = tier && std::string(tier) == "thorough";
    // single preemptions: every step (dense up to a cap, then strided) x every other thread
    uint64_t dense = thorough ? 1200 : 160; uint64_t singles = std::min<uint64_t>(PER * 5 / 8, (uint64_t)nsteps * (uint64_t)(T - 1));
    Chooser sch(eng::mix(eng::mix(h.seed, prog), f));
    auto add_prio = [&]() { std::string o; std::vector<int> p; for (int t = 0; t < T; t++) p.push_back(t); for (int i = T - 1; i > 0; i--) std::swap(p[i], p[sch.pick((size_t)i + 1)]); for (int t : p) o += (char)('0' + t); c.push_back(Op("R").s("order", o)); };
    if (f - 1 < singles) {
      uint64_t k = (f - 1) / (uint64_t)(T - 1), tt = (f - 1) % (uint64_t)(T - 1);
      uint64_t step = (k < dense ? k + 1 : dense + 1 + (k - dense) * std::max<uint64_t>(1, (nsteps - dense) / std::max<uint64_t>(1, singles / (T - 1) - dense)));
      if (step > nsteps) step = 1 + sch.range(0, nsteps - 1);
      // the thread running at that step in the baseline is unknown here: give a target order; the executor skips a self-target
      c.push_back(Op("P").u("step", step).u("to", (uint64_t)((tt + 1) % (uint64_t)T)));
      c.push_back(Op("P").u("step", step).u("to", (uint64_t)((tt + 2) % (uint64_t)T)));
      if (conflict_steps.size() > 0 && sch.chance(1, 2)) { /* keep baseline priorities */ } else add_prio();
      if (sch.chance(1, 4)) c.push_back(Op("Y").u("skip", sch.chance(3, 4) ? 0 : sch.range(1, 6)).u("n", sch.range(4, 9)));   // the allocator's bounded waits give up
      return c;
    }
    // sampled multi-preemption schedules
    if (!shared_addrs.empty() && sch.chance(2, 5)) {
      // address-directed schedule: 2-4 rules on one shared location (three-thread locations preferred): "thread T, about to make its k-th access to X -> run U"
      size_t pick = sch.pick(shared_addrs.size()); for (int tries = 0; tries < 3 && shared_addrs[pick].nthr < 3; tries++) pick = sch.pick(shared_addrs.size());
      const AddrInfo& ai = shared_addrs[pick]; std::vector<int> thr; for (int t = 0; t < 4; t++) if (ai.cnt[t]) thr.push_back(t);
      if (sch.chance(2, 3)) {
        // ABA pattern: victim A is stopped after its i-th access to X (typically the load of a load..CAS window); B, and then C, get to write X inside the
        // window -- either one after the other (priorities), or with A making 1-2 more accesses in between (second rule); optionally C (often the owner,
        // which would otherwise run ahead) is first parked at one of its own accesses to X.
        int A = thr[sch.pick(thr.size())]; std::vector<int> wr; for (int t : thr) if (t != A && ai.writes[t]) wr.push_back(t);
        if (!wr.empty()) {
          int B = wr[sch.pick(wr.size())]; int C = wr[sch.pick(wr.size())]; if (C == B && wr.size() > 1) C = wr[(std::find(wr.begin(), wr.end(), B) - wr.begin() + 1) % wr.size()];
          uint64_t m = 1 + sch.range(1, std::min<uint64_t>(ai.cnt[A], 16)), extra = sch.pick(3);
          // two times in three the victim is stopped right after a load that a CAS/RMW/store of the same thread follows within three accesses (the window of a retry loop)
          if (sch.chance(2, 3)) { std::vector<uint64_t> wins; for (int i = 0; i < ai.nseq[A]; i++) if (ai.seq[A][i] == MI_VF_LOAD) for (int j2 = i + 1; j2 <= i + 3 && j2 < ai.nseq[A]; j2++) if (ai.seq[A][j2] != MI_VF_LOAD) { wins.push_back((uint64_t)i + 2); break; }
            if (!wins.empty()) m = wins[sch.pick(wins.size())]; }
          if (sch.chance(3, 4)) { uint64_t kc = sch.range(1, std::min<uint64_t>(ai.cnt[C] + 1, 16));
            // mostly: C is parked right before a load of X that one of its own writes follows (it is about to take over / update the location)
            if (sch.chance(2, 3)) { std::vector<uint64_t> pk; for (int i = 0; i < ai.nseq[C]; i++) if (ai.seq[C][i] != MI_VF_LOAD) { int st = i; while (st > 0 && ai.seq[C][st-1] == MI_VF_LOAD && i - st < 2) st--; pk.push_back((uint64_t)st + 1); } if (!pk.empty()) kc = pk[sch.pick(pk.size())]; }
            c.push_back(Op("G").u("t", (uint64_t)C).u("a", ai.addr).u("k", kc).u("to", (uint64_t)A)); }
          c.push_back(Op("G").u("t", (uint64_t)A).u("a", ai.addr).u("k", m).u("to", (uint64_t)B));
          std::string order;
          if (extra > 0) { c.push_back(Op("G").u("t", (uint64_t)A).u("a", ai.addr).u("k", m + extra).u("to", (uint64_t)C)); order = { (char)('0' + A), (char)('0' + B), (char)('0' + C) }; }
          else order = { (char)('0' + C), (char)('0' + B), (char)('0' + A) };
          if (C == B) order = { (char)('0' + A), (char)('0' + B) };
          if (sch.chance(3, 4)) c.push_back(Op("R").s("order", order)); else add_prio();
          return c;
        }
      }
      int nr = (int)sch.range(2, 4);
      for (int i = 0; i < nr; i++) { int t = thr[sch.pick(thr.size())]; int to = thr[sch.pick(thr.size())]; if (to == t) to = thr[(std::find(thr.begin(), thr.end(), t) - thr.begin() + 1) % thr.size()];
        uint64_t kmax = std::min<uint64_t>(ai.cnt[t] + 2, 24); c.push_back(Op("G").u("t", (uint64_t)t).u("a", ai.addr).u("k", sch.range(1, kmax)).u("to", (uint64_t)to)); }
      add_prio();
      if (sch.chance(1, 6)) c.push_back(Op("Y").u("skip", 0).u("n", sch.range(4, 9)));
      return c;
    }
    unsigned kind = (unsigned)sch.pick(4); int maxp = thorough ? 5 : 3;
    int np = (int)sch.range(2, (uint64_t)maxp);
    for (int i = 0; i < np; i++) {
      uint64_t step;
      if (kind <= 1 && !conflict_steps.empty()) { step = conflict_steps[sch.pick(conflict_steps.size())]; int64_t d = (int64_t)sch.range(0, 6) - 3; if ((int64_t)step + d >= 1) step = (uint64_t)((int64_t)step + d); }
      else step = 1 + sch.range(0, (uint64_t)nsteps * 5 / 4);
      c.push_back(Op("P").u("step", step).u("to", sch.pick((size_t)T)));
    }
    add_prio();
    if (sch.chance(1, 5)) c.push_back(Op("Y").u("skip", sch.chance(3, 4) ? 0 : sch.range(1, 6)).u("n", sch.range(4, 9)));
    if (nweak > 0 && sch.chance(1, 2)) { int nx = (int)sch.range(1, thorough ? 3 : 2); for (int i = 0; i < nx; i++) c.push_back(Op("X").u("idx", sch.range(0, nweak - 1 + nweak / 4))); }
    return c;
  }
};
