// Mode-specific generators and oracles layered on the common executor.
#pragma once
#include "hist_exec3.hpp"
#include "hist_gen.hpp"

// ---------------------------------------------------------------- C17: detected misuse (secure / debug builds)
extern "C" int vf_forge_value(const void* block, int where, unsigned long long* value, unsigned long long* target) __attribute__((weak));   // harness/forge_helper.c (secure and debug variants)
struct AreaOf { uintptr_t p; size_t used = 0, bsize = 0, fbs = 0, cap = 0; uintptr_t lo = 0, hi = 0; bool found = false; };
static bool area_of_cb(const mi_heap_t*, const mi_heap_area_t* area, void* block, size_t, void* arg) {
  if (block) return true; AreaOf* a = (AreaOf*)arg; uintptr_t lo = (uintptr_t)area->blocks, hi = lo + area->reserved;
  if (a->p >= lo && a->p < hi) { a->found = true; a->used = area->used; a->bsize = area->block_size; a->fbs = area->full_block_size; a->cap = area->full_block_size ? area->reserved / area->full_block_size : 0; a->lo = lo; a->hi = hi; return false; }
  return true;
}
void Exec::op_misuse(const Op& op) {
#if defined(VF_PADDING)
  int s = (int)op.num("s"); if (s < 0 || s >= NSLOTS || !m.slots[s].live) return; Blk& b = m.slots[s];
  std::string kind = op.str("kind", "dfree");
  // a block left behind by an ended thread (no home heap): only the overflow misuse applies (its free is a cross-thread free / a reclaim-on-free)
  if (b.home < 1 && kind == "overflow" && b.home > -20 && !b.stranded && b.u <= MiB) {
    size_t n = b.n; uint8_t* p = b.p; if (!b.pristine || b.u < b.n || b.a > 16 || (b.a > 1 && b.u != b.n) || b.o != 0 || b.zmode || n == 0) { count(C_EXCLUDED); return; }
    int efault0 = mi_errors[1], other0 = mi_errors[2] + mi_errors[5]; uint8_t v = (uint8_t)op.num("v", 1); if (v == 0 || v == 0xDE) v = 0x41;
    verify_blk(s, "before-misuse"); p[n] = v; model_remove(s, true); expect_err = EFAULT;
    if (op.num("thread", 0)) { ThreadJob j; j.ptrs.push_back(p); run_thread(j); for (int i = 1; i < NHEAPS; i++) if (m.heaps[i].alive) m.heaps[i].pending_remote = true; } else mi_free(p);
    // (if the segment had been adopted by a heap of this thread, the remote free parked the block on that heap's delayed list: the owner checks the
    //  padding once more when it handles it -- let that second report happen inside this op)
    for (int i = 1; i < NHEAPS; i++) if (m.heaps[i].alive) { mi_heap_collect(m.heaps[i].h, false); m.heaps[i].pending_remote = false; }
    expect_err = 0; count(C_FREES);
    if (mi_errors[1] == efault0) fail_now("overflow-undetected", "op#%ld byte 0x%02x written at offset %zu (= requested size) of block %p (left behind by an ended thread) was not reported when the block was freed", opi, v, n, p);
    if (mi_errors[2] + mi_errors[5] != other0) fail_now("misuse-other-error", "op#%ld unexpected error code reported (%d)", opi, last_err);
    flag(F_MISUSE_DETECTED);
#if defined(VF_DEBUG_BUILD)
    stop_after_this_op = true;
#endif
    return; }
  if (b.home < 1 || !m.heaps[b.home].alive || b.foreign || b.stranded || b.u > MiB) { count(C_EXCLUDED); return; }
  // the block's area must keep at least one other live block (a second free after the whole area was released is outside the claim)
  AreaOf ao; ao.p = (uintptr_t)b.p; mi_heap_visit_blocks(m.heaps[b.home].h, false, &area_of_cb, &ao);
  if (!ao.found || ao.used < 2 || ao.cap < 2) { count(C_EXCLUDED); return; }
  // (`used` still counts blocks that another thread freed and the owner has not collected yet: ask the model as well, or the whole area may
  //  be released by the first free and legitimately be built anew, forged link included)
  size_t others_live = 0; for (auto it = m.live.lower_bound(ao.lo); it != m.live.end() && it->first < ao.hi; ++it) if (it->second != s) others_live++; if (others_live < 1) { count(C_EXCLUDED); return; }
  verify_blk(s, "before-misuse");
  uint8_t* p = b.p; size_t n = b.n; int home = b.home; mi_heap_t* hp = m.heaps[home].h;
  int eagain0 = mi_errors[0], efault0 = mi_errors[1], other0 = mi_errors[2] + mi_errors[5];
  auto others = [&]() { return mi_errors[2] + mi_errors[5]; };
  // allocations of the same class afterwards: never the same address twice, never overlapping a live block, always inside the heap
  auto same_class_probe = [&](size_t count_max, bool until_p) {
    std::vector<uint8_t*> got; bool seen_p = false;
    for (size_t i = 0; i < count_max; i++) { uint8_t* q = (uint8_t*)launder(mi_heap_malloc(hp, n)); if (!q) break;
      if (!mi_is_in_heap_region(q) && (uintptr_t)q < ((uintptr_t)48 << 40)) fail_now("misuse-outside-heap", "op#%ld after a detected %s the allocator returned %p which is outside its heap regions", opi, kind.c_str(), q);
      check_disjoint(q, mi_usable_size(q), -1, "after-misuse");
      got.push_back(q); if (q == p) { seen_p = true; if (until_p) break; } }
    std::sort(got.begin(), got.end()); for (size_t i = 1; i < got.size(); i++) if (got[i] == got[i-1]) fail_now("handed-out-twice", "op#%ld after a detected %s the allocator handed out %p twice", opi, kind.c_str(), got[i]);
    for (uint8_t* q : got) mi_free(q);
    return seen_p; };
  if (kind == "dfree") {
    bool first_remote = op.num("thread", 0) != 0;
    if (first_remote) {
      // the first (legal) free is made by another thread, the second by the owner. Known finding F19: if that first free is the first cross-thread free into
      // the page, the block sits on the heap's delayed-free list, which the double-free check does not look at. Excluded by construction: another block of
      // the same page is freed remotely first, so that the target goes to the page's thread-free list (which the check walks).
      if (!known_f19_off) { int primer = -1; for (auto it = m.live.lower_bound(ao.lo); it != m.live.end() && it->first < ao.hi; ++it) if (it->second != s && m.slots[it->second].home == home && !m.slots[it->second].stranded) { primer = it->second; break; }
        if (primer < 0 || ao.used < 3 || others_live < 2) { count(C_EXCLUDED); return; }
        Blk& pb = m.slots[primer]; verify_blk(primer, "primer"); ThreadJob pj; pj.ptrs.push_back(pb.p); model_remove(primer, true); run_thread(pj); count(C_FREES); }
      model_remove(s, true); { ThreadJob j; j.ptrs.push_back(p); run_thread(j); } count(C_FREES); for (int i = 1; i < NHEAPS; i++) if (m.heaps[i].alive) m.heaps[i].pending_remote = true;
    } else {
    model_remove(s, true); mi_free(p); count(C_FREES); }
    if (mi_errors[0] != eagain0 || mi_errors[1] != efault0) fail_now("misuse-first-free-error", "op#%ld the first (legal) free of %p reported an error", opi, p);
    size_t between = op.num("between", 0); std::vector<void*> tmp; size_t on = (n <= 1024 ? 5000 : 24);   // another class: cannot hand out p again
    for (size_t i = 0; i < between && i < 8; i++) tmp.push_back(mi_heap_malloc(hp, on));
    expect_err = EAGAIN;
    mi_free(p);                                           // the misuse
    expect_err = 0;
    for (void* t : tmp) mi_free(t);
    if (mi_errors[0] != eagain0 + 1) fail_now("double-free-undetected", "op#%ld second free of %p (n=%zu, area used=%zu) delivered %d EAGAIN reports instead of exactly one", opi, p, n, ao.used, mi_errors[0] - eagain0);
    flag(F_MISUSE_DETECTED);
#if defined(VF_SECURE_BUILD)
    same_class_probe(ao.cap * 2 + 4, false);
#endif
  }
  else if (kind == "overflow") {
    // (the premise is about the *requested* size: a usable size above it -- which a pristine block never has in a padding build -- does not make the byte at offset n the block's own)
    // and an aligned entry point may over-allocate even for alignments <= 16, which moves the canary: there only blocks whose usable size is the request)
    if (!b.pristine || b.u < b.n || b.a > 16 || (b.a > 1 && b.u != b.n) || b.o != 0 || b.zmode || n == 0) { count(C_EXCLUDED); return; }
    uint8_t v = (uint8_t)op.num("v", 1); if (v == 0 || v == 0xDE) v = 0x41;
    p[n] = v;                                             // the misuse: one foreign byte just past the requested size
    model_remove(s, true);
    expect_err = EFAULT;
    if (op.num("thread", 0)) { ThreadJob j; j.ptrs.push_back(p); run_thread(j); for (int i = 1; i < NHEAPS; i++) if (m.heaps[i].alive) m.heaps[i].pending_remote = true; } else mi_free(p);
    expect_err = 0;
    count(C_FREES);
    if (mi_errors[1] == efault0) fail_now("overflow-undetected", "op#%ld byte 0x%02x written at offset %zu (= requested size) of block %p was not reported when the block was freed", opi, v, n, p);
    flag(F_MISUSE_DETECTED);
#if defined(VF_SECURE_BUILD)
    mi_heap_collect(hp, false); same_class_probe(ao.cap + 4, false);
#endif
  }
  else if (kind == "forge") {
    uint64_t x = op.num("x", 0x9e3779b97f4a7c15ull) | 0x0001000100010001ull;   // (also after numeric shrinking)
    // the link is the first word of the allocator's block: an aligned allocation may have returned an interior pointer, and a write there changes
    // only some bytes of the link (or none), which can decode into the same area -- outside the claim. Only blocks whose pointer is a block start.
    if (ao.fbs == 0 || ((uintptr_t)b.p - ao.lo) % ao.fbs != 0) { count(C_EXCLUDED); return; }
    if (op.num("thread", 0) && !known_f14_off) {
      // known finding F14: the first remote free into a page goes to the heap's delayed-free list, whose links are followed without validation.
      // Excluded by construction: another block of the same page is freed remotely first, so that the target goes to the page's thread-free list.
      int primer = -1; for (auto it = m.live.lower_bound(ao.lo); it != m.live.end() && it->first < ao.hi; ++it) if (it->second != s && m.slots[it->second].home == home && !m.slots[it->second].stranded) { primer = it->second; break; }
      if (primer < 0 || ao.used < 3) { count(C_EXCLUDED); return; }
      Blk& pb = m.slots[primer]; verify_blk(primer, "primer"); ThreadJob pj; pj.ptrs.push_back(pb.p); model_remove(primer, true); run_thread(pj); count(C_FREES);
      // (no collect here: until the owner handles the delayed block the page stays in the "no delayed free" state)
    }
    walk_unreliable = true;
    model_remove(s, true);
    if (op.num("thread", 0)) { ThreadJob j; j.ptrs.push_back(p); run_thread(j); for (int i = 1; i < NHEAPS; i++) if (m.heaps[i].alive) m.heaps[i].pending_remote = true; } else mi_free(p);
    count(C_FREES);
    if (mi_errors[1] != efault0) fail_now("misuse-first-free-error", "op#%ld the legal free of %p reported EFAULT", opi, p);
    if (getenv("VF_DEBUG_FORGE")) { uint64_t w0; memcpy(&w0, p, 8); fprintf(stderr, "forge: p=%p n=%zu a=%zu o=%zu u=%zu area=[%zx,%zx) bsize=%zu used=%zu link=0x%llx x=0x%llx\n", p, n, b.a, b.o, b.u, ao.lo, ao.hi, ao.bsize, ao.used, (unsigned long long)w0, (unsigned long long)x); }
    uint64_t w; memcpy(&w, p, 8); w ^= x;
    // targeted variant: the link is made to decode to a chosen address outside the block's area (below the area in the same slice, just past its end,
    // another segment, a small integer, the segment header); the value is computed with the page's keys by the white-box helper
    { int where = (int)op.num("where", 0); unsigned long long v = 0, tgt = 0; if (where > 0 && !op.num("thread", 0) && vf_forge_value && vf_forge_value(p, where, &v, &tgt) && v != (w ^ x)) { w = v; flag(F_FORGE_TARGETED); } }
    memcpy(p, &w, 8);   // the misuse: the free-list link is overwritten (always different from the stored value)
    expect_err = EFAULT;
    // allocate the class until p comes back (at most capacity allocations + slack): the forged link must be reported, not followed
    bool seen = same_class_probe(ao.cap + 8, true);
    if (op.num("thread", 0) && !seen) { mi_heap_collect(hp, false); seen = same_class_probe(ao.cap + 8, true); }
    if (mi_errors[1] == efault0) {
      if (!seen) { pending_forge++; /* expect_err stays armed in debug builds */ }   // p has not come back yet: the report is still due when the allocator reaches the link
      else fail_now("forged-link-undetected", "op#%ld the overwritten free-list link in %p was followed without an EFAULT report", opi, p);
    } else { flag(F_MISUSE_DETECTED); expect_err = 0; }
#if !defined(VF_DEBUG_BUILD)
    expect_err = 0;
#endif
  }
  else return;
  if (others() != other0) fail_now("misuse-other-error", "op#%ld unexpected error code reported (%d)", opi, last_err);
#if defined(VF_DEBUG_BUILD)
  stop_after_this_op = true;    // debug builds: internal assertions after a detected error are outside the claim
#endif
#else
  (void)op;
#endif
}

// ---------------------------------------------------------------- C13: purge police
static void purge_event(int kind, void* addr, size_t len, int arg, int failed) {
  Exec* e = g_exec; if (!e || failed) return;
  if (kind == VF_ADVISE || kind == VF_PROTECT || kind == VF_UNMAP) {
    e->count(C_PURGE_CALLS); if (e->m.nlive >= 8) e->flag(F_PURGE_SEEN);
    if (kind != VF_UNMAP) e->purge_calls_seen++;
    { uintptr_t lo = (uintptr_t)addr, hi = lo + len; for (auto& w : e->watches) if (w.freed && !w.purged && lo < w.hi && w.lo < hi) w.purged = true; }
    if (!e->police_purge) return;
    uintptr_t lo = (uintptr_t)addr, hi = lo + len;
    auto it = e->m.live.lower_bound(lo);
    if (it != e->m.live.begin()) { auto jt = it; --jt; Blk& b = e->m.slots[jt->second]; if (jt->first + b.u > lo && !(e->exempt_lo <= jt->first && jt->first < e->exempt_hi)) fail_now("purge-live", "op#%ld OS call kind %d on [%p,+%zu) hits live block %p(+%zu)", e->opi, kind, addr, len, b.p, b.u); }
    for (; it != e->m.live.end() && it->first < hi; ++it) { Blk& b = e->m.slots[it->second]; if (b.u == 0) continue; if (e->exempt_lo <= it->first && it->first < e->exempt_hi) continue; fail_now("purge-live", "op#%ld OS call kind %d on [%p,+%zu) hits live block %p(+%zu)", e->opi, kind, addr, len, b.p, b.u); }
  }
}
static void install_purge_police(Exec&) { vf_set_event_fn(&purge_event); }

// ---------------------------------------------------------------- C13: option vectors (pairwise covering array first, then random)
struct OptDom { const char* name; std::vector<long> vals; };
static const std::vector<OptDom> OPT_DOMS = {
  { "purge_delay", { -1, 0, 1, 10 } }, { "purge_decommits", { 0, 1 } }, { "purge_extend_delay", { 0, 1 } }, { "eager_commit", { 0, 1 } },
  { "eager_commit_delay", { 0, 1, 4 } }, { "arena_eager_commit", { 0, 1, 2 } }, { "disallow_arena_alloc", { 0, 1 } },
  { "arena_reserve", { 32*1024, 64*1024, 1024*1024 } }, { "arena_purge_mult", { 1, 10 } }, { "abandoned_reclaim_on_free", { 0, 1 } },
  { "abandoned_page_purge", { 0, 1 } }, { "target_segments_per_thread", { 0, 1, 2, 4 } }, { "max_segment_reclaim", { 0, 10, 100 } },
  { "deprecated_page_reset", { 0, 1 } }, { "generic_collect", { 1, 100, 10000 } }, { "allow_large_os_pages", { 0, 2 } },
};
static std::vector<std::vector<int>> g_cover;   // rows of value indices
static void build_cover() {
  size_t n = OPT_DOMS.size(); std::set<std::tuple<int,int,int,int>> todo;
  for (size_t i = 0; i < n; i++) for (size_t j = i + 1; j < n; j++) for (size_t a = 0; a < OPT_DOMS[i].vals.size(); a++) for (size_t b = 0; b < OPT_DOMS[j].vals.size(); b++) todo.insert({ (int)i, (int)a, (int)j, (int)b });
  uint64_t s = 0xC0FFEE;
  while (!todo.empty() && g_cover.size() < 200) {
    std::vector<int> best; size_t bestc = 0;
    for (int t = 0; t < 60; t++) {
      std::vector<int> row(n); for (size_t i = 0; i < n; i++) row[i] = (int)(eng::splitmix64(s) % OPT_DOMS[i].vals.size());
      if (t == 0) { auto f = *todo.begin(); row[std::get<0>(f)] = std::get<1>(f); row[std::get<2>(f)] = std::get<3>(f); }
      size_t c = 0; for (size_t i = 0; i < n; i++) for (size_t j = i + 1; j < n; j++) if (todo.count({ (int)i, row[i], (int)j, row[j] })) c++;
      if (c > bestc || best.empty()) { bestc = c; best = row; }
    }
    for (size_t i = 0; i < n; i++) for (size_t j = i + 1; j < n; j++) todo.erase({ (int)i, best[i], (int)j, best[j] });
    g_cover.push_back(best);
  }
}
static void gen_option_prefix(Gen& g, uint64_t idx) {
  if (g_cover.empty()) build_cover();
  for (size_t i = 0; i < OPT_DOMS.size(); i++) {
    size_t vi = (idx < g_cover.size()) ? (size_t)g_cover[idx][i] : g.ch.pick(OPT_DOMS[i].vals.size());
    if (idx >= g_cover.size() && g.ch.chance(1, 2)) continue;     // random vectors leave about half of the options at their default
    g.out.push_back(Op("opt").s("name", OPT_DOMS[i].name).i("v", OPT_DOMS[i].vals[vi]));
  }
}
static Case gen_c17(Chooser& ch) {
  Profile pf; pf.min_ops = 20; pf.max_ops = 120; pf.big_ok = false; pf.w_fill = 10; pf.w_holes = 6; pf.w_talloc = 2; pf.w_heap = 3; pf.p_aligned = 8; pf.w_realloc = 4; pf.w_visit = 2;
  Gen g(ch, pf); int nops = (int)ch.range(20, 120); int misuses = 0;
  if (ch.chance(1, 3)) g.out.push_back(Op("opt").s("name", "abandoned_reclaim_on_free").u("v", 1));   // the first free into an abandoned segment adopts it and frees locally
  while ((int)g.out.size() < nops) {
    if (ch.chance(1, 25) && g.next_slot + 8 < NSLOTS) {
      // a thread leaves a few tiny blocks behind and ends; the very next free of one of them (by the main thread, or by another helper) carries the overflow
      size_t kk = ch.range(2, 6), tn = ch.chance(2, 3) ? ch.range(1, 7) : ch.range(8, 64); int s0 = g.next_slot; g.next_slot += (int)kk;
      g.out.push_back(Op("talloc").u("s", (uint64_t)s0).u("k", kk).u("n", tn)); for (size_t i = 0; i < kk; i++) g.note_alloc(s0 + (int)i, tn, 1, 0, false, -1); g.groups.push_back({ s0, (int)kk, tn });
      int s = s0 + (int)ch.pick(kk); g.out.push_back(Op("misuse").u("s", (uint64_t)s).s("kind", "overflow").u("v", ch.range(1, 255)).u("thread", ch.chance(1, 4))); g.note_free(s); misuses++; continue; }
    if (g.out.size() > 6 && ch.chance(1, 7)) {
      int s = g.pick_live(); if (s < 0) { g.step(); continue; }
      Op op("misuse"); op.u("s", (uint64_t)s);
      switch (ch.pick(3)) { case 0: op.s("kind", "dfree").u("between", ch.range(0, 8)).u("thread", ch.chance(1, 3)); break;
        case 1: op.s("kind", "overflow").u("v", ch.range(1, 255)).u("thread", ch.chance(1, 3)); break;
        default: { bool thr = ch.chance(1, 4); op.s("kind", "forge").u("x", ch.bits(8) | 0x0001000100010001ull).u("thread", thr); if (!thr && ch.chance(1, 2)) op.u("where", ch.range(1, 5)); break; } }   // bits in every 16-bit lane: cannot decode into the same page
      g.out.push_back(op); g.note_free(s); misuses++;
    } else g.step();
  }
  return g.out;
}

// ---------------------------------------------------------------- C18: purge after the delay, without a forced collect
void Exec::op_c18(const Op& op) {
  const std::string& nm = op.name;
  if (nm == "watch") { int s0 = (int)op.num("s"), k = (int)op.num("k", 1); for (int i = 0; i < k; i++) { int s = s0 + i; if (s < 0 || s >= NSLOTS || !m.slots[s].live) continue; Blk& b = m.slots[s]; if (b.u <= 64*KiB) continue;   /* only blocks that own their page(s): freeing them frees whole pages at once (no retire delay, no sharing) */
      Watch w; w.lo = (uintptr_t)b.p; w.hi = w.lo + b.u; w.slot = s; watches.push_back(w); } return; }
  if (nm == "free_near") {   // ordinary activity in the same segment: free one more block that shares a segment with a freed, not yet purged region
    int s0 = (int)op.num("s"), k = (int)op.num("k", 1); int pick = -1, first = -1;
    for (int i = 0; i < k && pick < 0; i++) { int s = s0 + i; if (s < 0 || s >= NSLOTS || !m.slots[s].live) continue; if (first < 0) first = s;
      for (auto& w : watches) if (w.freed && !w.purged && (w.lo >> 25) == ((uintptr_t)m.slots[s].p >> 25)) { pick = s; break; } }
    last_free_near_seg = 0; if (pick >= 0 && m.slots[pick].u > 64*KiB) last_free_near_seg = ((uintptr_t)m.slots[pick].p >> 25);   // (only a block that owns its page(s) frees a page, which is what makes the segment look at its purge schedule)
    if (pick < 0) pick = first; if (pick >= 0) free_slot(pick, "free"); return; }
  if (nm == "expect") {
    std::string what = op.str("what", "purged");
    if (what == "none") { if (purge_calls_seen != 0) fail_now("purged-although-disabled", "op#%ld %ld purge call(s) (madvise/mprotect-none) were issued although purge_delay is -1", opi, purge_calls_seen); return; }
    size_t nf = 0, segs = 0, pages = 0; size_t nfreed = 0; for (auto& w : watches) if (w.freed) nfreed++;
    if (getenv("VF_DEBUG_C18")) { for (auto& w : watches) fprintf(stderr, "watch slot %d [%zx,%zx) freed=%d purged=%d spoiled=%d collect=%d free_same_seg=%d\n", w.slot, w.lo, w.hi, w.freed, w.purged, w.spoiled, w.saw_collect, w.saw_free_same_seg); for (auto& kv : m.live) fprintf(stderr, "  live slot %d [%zx,+%zu)\n", kv.second, kv.first, m.slots[kv.second].u); }
    for (auto& w : watches) { if (!w.freed) continue;
      // only evaluated when the premise holds: delay 0, or the clock passed delay*mult (+ extension per free) and ordinary activity followed
      bool seg_sized = (w.hi - w.lo > 16*MiB);
      if (opt_purge_delay > 0 && !w.purged && (w.spoiled || !(seg_sized ? w.saw_collect : w.saw_free_same_seg))) { count(C_EXCLUDED); continue; }
      nf++; if (w.hi - w.lo > 16*MiB) segs++; else pages++;
      if (!w.purged) fail_now("not-purged", "op#%ld freed region [%p,+%zu) (slot %d, freed at op#%ld) was never purged although the delay has long passed and ordinary activity followed (no forced collect)", opi, (void*)w.lo, (size_t)(w.hi - w.lo), w.slot, w.freed_op); }
    if (segs >= 1 && pages >= 1) flag(F_PURGE_SEEN);
    return; }
}

static Case gen_c18(Chooser& ch) {
  Case c; static const std::vector<long> ds = { -1, 0, 5, 10, 10 }; long D = ch.of(ds); bool dec = ch.chance(2, 3); long M = ch.chance(1, 2) ? 10 : 1;
  c.push_back(Op("opt").s("name", "purge_delay").i("v", D)); c.push_back(Op("opt").s("name", "purge_decommits").u("v", dec)); c.push_back(Op("opt").s("name", "arena_purge_mult").i("v", M));
  if (!dec) {   // purge by reset only happens on fully committed ranges: make commits eager so that the expectation below is what the code promises
    c.push_back(Op("opt").s("name", "eager_commit_delay").u("v", 0)); c.push_back(Op("opt").s("name", "arena_eager_commit").u("v", 1)); c.push_back(Op("opt").s("name", "eager_commit").u("v", 1)); }
  else if (ch.chance(1, 3)) c.push_back(Op("opt").s("name", "eager_commit_delay").u("v", ch.pick(3)));
  int slot = 0;
  // one time in five everything below lives in memory that the program hands to the allocator itself (mi_manage_os_memory_ex, committed or not),
  // through a heap bound to that arena: purging must work there as well
  int hsel = 0; if (ch.chance(1, 5)) { c.push_back(Op("arena").u("i", 0).s("how", "manage").u("size", (size_t)ch.range(8, 16) * 32*MiB).u("commit", ch.chance(2, 3)).u("excl", ch.chance(1, 2)).u("mustfit", 1)); c.push_back(Op("hnew").u("h", 2).s("kind", "arena").u("ar", 0)); hsel = 2; }
  auto allocs = [&](int k, size_t n) { int s0 = slot; for (int i = 0; i < k; i++) { Op op("alloc"); op.u("s", (uint64_t)slot++).s("f", ch.chance(1, 4) ? "zalloc" : "malloc").u("n", n).u("nt", 1); if (hsel) op.u("h", (uint64_t)hsel); c.push_back(op); } return s0; };
  // a few ordinary small blocks first
  int base = allocs((int)ch.range(1, 20), (size_t)ch.range(8, 2000)); (void)base;
  // 1-3 cycles of (free whole pages / whole segments, let the delay pass, ordinary activity, expectation): a later cycle finds the purge
  // bookkeeping (segment purge masks, per-arena and global expiry) in the state the previous cycle left it in
  int cycles = (int)(ch.chance(1, 2) ? 1 : ch.range(2, 3));
  for (int cy = 0; cy < cycles && slot < NSLOTS - 200; cy++) {
    size_t nfrees = 0; int first_slot = slot;
    bool w1 = ch.chance(4, 5), w2 = ch.chance(4, 5), w3 = (cy == cycles - 1) && ch.chance(1, 4); if (!w1 && !w2) w1 = true;
    int keep0 = -1, keepk = 0;
    if (w1) {   // whole pages inside a segment that stays in use
      size_t n = (size_t)ch.range(64*KiB + 1, 4*MiB); int k = (int)ch.range(2, 6); int s0 = allocs(k, n); keepk = (int)ch.range(2, 4); keep0 = allocs(keepk, n);
      // free adjacent pages (they coalesce into one span) or every 2nd/3rd page (separate spans, each scheduled on its own within one delay window)
      int step = (int)ch.range(1, 3); if (step > 1) { k = k * 2; for (int i = 0; i < k / 2; i++) { Op op("alloc"); op.u("s", (uint64_t)slot++).s("f", "malloc").u("n", n).u("nt", 1); if (hsel) op.u("h", (uint64_t)hsel); c.push_back(op); } }
      c.push_back(Op("watch").u("s", (uint64_t)s0).u("k", (uint64_t)k)); c.push_back(Op("rfree").u("s", (uint64_t)s0).u("k", (uint64_t)k).u("step", (uint64_t)step).u("ph", 0)); nfrees += (size_t)k;
      keepk = slot - s0; keep0 = s0;   // the blocks left live in between serve as keepers too
      if (D == 0) c.push_back(Op("expect").s("what", "purged")); }
    if (w2) {   // whole segments
      int k = (int)ch.range(1, 3); int s0 = slot; for (int i = 0; i < k; i++) allocs(1, (size_t)ch.range(17*MiB, 60*MiB));
      c.push_back(Op("watch").u("s", (uint64_t)s0).u("k", (uint64_t)k)); c.push_back(Op("rfree").u("s", (uint64_t)s0).u("k", (uint64_t)k).u("step", 1).u("ph", 0)); nfrees += (size_t)k;
      if (D == 0) c.push_back(Op("expect").s("what", "purged")); }
    if (w3) {   // free everything (the keepers too)
      c.push_back(Op("watch").u("s", 0).u("k", (uint64_t)slot)); c.push_back(Op("rfree").u("s", 0).u("k", (uint64_t)slot).u("step", 1).u("ph", 0)); nfrees += (size_t)slot; keep0 = -1;
      if (D == 0) c.push_back(Op("expect").s("what", "purged")); }
    (void)first_slot;
    // sometimes what was just freed is taken again at once and kept: when the expiry passes, the arena finds nothing left to purge (its purge
    // bookkeeping must still be left in a state from which the next cycle's frees are purged)
    if (w2 && D > 0 && cy + 1 < cycles && ch.chance(1, 2)) { int kk = (int)ch.range(1, 3); for (int i = 0; i < kk; i++) allocs(1, (size_t)ch.range(17*MiB, 60*MiB)); }
    if (D == 0) continue;
    long delay = (D < 0 ? 10 : D); size_t tick = (size_t)(delay * M) + 100 * nfrees + 1000 + (size_t)ch.range(0, 5000);
    c.push_back(Op("tick").u("ms", tick));
    // ordinary activity, never a forced collect
    int rounds = (int)ch.range(1, 3);
    for (int r = 0; r < rounds; r++) {
      c.push_back(Op("collect").u("force", 0));
      if (keep0 >= 0) c.push_back(Op("free_near").u("s", (uint64_t)keep0).u("k", (uint64_t)keepk));
      int s = slot++; c.push_back(Op("alloc").u("s", (uint64_t)s).s("f", "malloc").u("n", (size_t)ch.range(64*KiB + 1, 2*MiB)).u("nt", 1)); c.push_back(Op("free").u("s", (uint64_t)s));
      { int t = slot++; c.push_back(Op("alloc").u("s", (uint64_t)t).s("f", "malloc").u("n", (size_t)ch.range(17*MiB, 40*MiB)).u("nt", 1)); c.push_back(Op("free").u("s", (uint64_t)t)); }
      c.push_back(Op("collect").u("force", 0));
      c.push_back(Op("tick").u("ms", (size_t)ch.range(20, 3000)));
    }
    c.push_back(Op("collect").u("force", 0));
    c.push_back(Op("expect").s("what", D < 0 ? "none" : "purged"));
  }
  return c;
}

// ---------------------------------------------------------------- C15: arenas
// count how many one-block (segment-sized) allocations an empty arena accepts: must equal its block count, then NULL (never an address outside)
void Exec::op_acap(const Op& op) {
  int ai = (int)op.num("ar"); if (ai < 0 || ai >= NARENAS || !m.arenas[ai].valid) return; ArenaInfo& A = m.arenas[ai];
  auto it = m.live.lower_bound((uintptr_t)A.start); if (it != m.live.end() && it->first < (uintptr_t)A.start + A.size) { count(C_EXCLUDED); return; }   // not empty per the model
  for (int g = 1; g < NHEAPS; g++) if (m.heaps[g].alive) mi_heap_collect(m.heaps[g].h, true);   // release retired pages / empty segments the model cannot see
  mi_heap_t* hp = mi_heap_new_in_arena(A.id); if (!hp) return;   // (its descriptor lives in the backing heap)
  size_t blocks = A.size / SEGMENT_SIZE, got = 0; std::vector<void*> ps; size_t n = (size_t)op.num("n", 24*MiB); if (n < 17*MiB || n > 28*MiB) n = 24*MiB;   // plus segment info (and padding in debug builds) must fit one 32 MiB arena block
  for (size_t i = 0; i < blocks + 3; i++) { uint8_t* p = (uint8_t*)launder(mi_heap_malloc(hp, n)); if (!p) break;
    if (p < A.start || p + n > A.start + A.size) fail_now("outside-arena", "op#%ld capacity probe: block %p(+%zu) outside arena %d [%p,+%zu)", opi, p, n, ai, A.start, A.size);
    check_disjoint(p, mi_usable_size(p), -1, "acap"); for (void* q : ps) if ((uint8_t*)q < p + n && p < (uint8_t*)q + n) fail_now("overlap", "op#%ld capacity probe: blocks %p and %p overlap", opi, p, q);
    p[0] = 1; p[n - 1] = 2; ps.push_back(p); got++; }
  for (void* p : ps) mi_free(p);
  mi_heap_delete(hp);
  flag(F_ARENA_CAP);
  // a non-exclusive arena may also hold segments of other heaps that the model cannot see (e.g. the one holding heap descriptors): only an upper bound there
  if (got > blocks || (A.exclusive && got != blocks)) fail_now("arena-capacity", "op#%ld an empty arena of %zu blocks (area %zu bytes) accepted %zu one-block allocations of %zu bytes", opi, blocks, A.size, got, n);
}

static void c15_event(int kind, void* addr, size_t len, int, int failed) {
  Exec* e = g_exec; if (!e || failed) return; if (kind == VF_MAP) return;
  uintptr_t lo = (uintptr_t)addr, hi = lo + len;
  for (int i = 0; i < NARENAS; i++) { ArenaInfo& A = e->m.arenas[i]; if (!A.outer) continue;
    uintptr_t olo = (uintptr_t)A.outer, ohi = olo + A.outer_size, glo = (uintptr_t)A.given, ghi = glo + A.given_size;
    if (lo < ohi && olo < hi && (lo < glo || hi > ghi)) fail_now("outside-managed-region", "op#%ld OS call kind %d on [%p,+%zu) touches the caller's memory outside the region [%p,+%zu) handed to mi_manage_os_memory_ex", e->opi, kind, addr, len, A.given, A.given_size); }
  purge_event(kind, addr, len, 0, failed);
}

static Case gen_c15(Chooser& ch) {
  Profile pf; pf.min_ops = 15; pf.max_ops = 90; pf.p_heap_api = 75; pf.w_heap = 5; pf.w_talloc = 3; pf.w_tfree = 2; pf.w_visit = 1; pf.big_ok = false; pf.arenas = false; pf.w_fill = 9; pf.w_churn = 3;
  Gen g(ch, pf);
  if (ch.chance(1, 3)) g.out.push_back(Op("opt").s("name", "abandoned_reclaim_on_free").u("v", 1));
  int na = (int)ch.range(1, 2);
  for (int i = 0; i < na; i++) {
    bool ex = ch.chance(2, 3); size_t size = (size_t)ch.range(2, 6) * 32*MiB; Op op("arena"); op.u("i", (uint64_t)i).u("excl", ex).u("commit", ch.chance(1, 4));
    if (ch.chance(1, 2)) { static const std::vector<size_t> mis = { 0, 4*KiB, 64*KiB, 1*MiB, 31*MiB }; static const std::vector<size_t> odd = { 0, 4*KiB, 1*MiB, 16*MiB, 31*MiB + 4*KiB }; op.s("how", "manage").u("mis", ch.of(mis)); size += ch.of(odd); if (ch.chance(1, 10)) size = (size_t)ch.range(1, 40) * MiB; }
    op.u("size", size); g.out.push_back(op); g.arena_valid[i] = true; g.arena_excl[i] = ex;
    if (ch.chance(1, 3)) g.out.push_back(Op("acap").u("ar", (uint64_t)i).u("n", (size_t)ch.range(17, 31) * MiB));
    int h = 2 + i; g.out.push_back(Op("hnew").u("h", (uint64_t)h).s("kind", ch.chance(1, 4) ? "ex" : "arena").u("ar", (uint64_t)i).u("d", 0).u("tag", 0)); g.heaps[h].alive = true; g.heaps[h].arena = i;
  }
  if (ch.chance(1, 2)) { g.out.push_back(Op("hnew").u("h", 5).s("kind", "new")); g.heaps[5].alive = true; g.heaps[5].destroyable = true; }
  int nops = (int)ch.range(15, 90);
  while ((int)g.out.size() < nops) {
    unsigned k = (unsigned)ch.pick(12);
    if (k == 0) {   // exhaust a bound heap: segment-sized blocks until NULL, later freed by rfree
      int h = 2 + (int)ch.pick((size_t)na); size_t n = (size_t)ch.range(17, 31) * MiB; int kk = 10; if (g.next_slot + kk > NSLOTS) continue; int s0 = g.next_slot; g.next_slot += kk;
      g.out.push_back(Op("fill").u("s", (uint64_t)s0).u("k", (uint64_t)kk).s("f", "malloc").u("n", n).u("h", (uint64_t)h).u("nt", 1)); for (int i = 0; i < kk; i++) g.note_alloc(s0 + i, 0, 1, 0, false, h); g.groups.push_back({ s0, kk, n });
    } else if (k == 1) { int ai = (int)ch.pick((size_t)na); size_t kk = ch.range(1, 30); if (g.next_slot + (int)kk > NSLOTS) continue; int s0 = g.next_slot; g.next_slot += (int)kk;
      g.out.push_back(Op("talloc").u("s", (uint64_t)s0).u("k", kk).u("n", ch.chance(1, 2) ? ch.of(g_classes) : ch.range(1, 300*KiB)).u("ar", (uint64_t)ai)); for (size_t i = 0; i < kk; i++) g.note_alloc(s0 + (int)i, 0, 1, 0, false, -1); g.groups.push_back({ s0, (int)kk, 0 });
    } else if (k == 2 && ch.chance(1, 3)) { g.out.push_back(Op("acap").u("ar", (uint64_t)ch.pick((size_t)na)));
    } else if (k == 3 && ch.chance(1, 2)) {
      // adoption pressure: a helper thread with a heap bound to the arena exits leaving blocks, then an unbound heap asks for fresh segments many times
      // (every such request visits the abandoned segment once more) and finally allocates the size class the thread left behind
      int ai = (int)ch.pick((size_t)na); size_t kk = ch.range(2, 12), tn = ch.chance(1, 2) ? ch.of(g_classes) : ch.range(8, 4000); size_t nbig = ch.range(100, 190), nsm = ch.range(10, 200);
      if (g.next_slot + (int)(kk + nbig + nsm) > NSLOTS || g.live_bytes + nbig * MiB > 400*MiB) continue;
      int s0 = g.next_slot; g.next_slot += (int)kk; g.out.push_back(Op("talloc").u("s", (uint64_t)s0).u("k", kk).u("n", tn).u("ar", (uint64_t)ai)); for (size_t i = 0; i < kk; i++) g.note_alloc(s0 + (int)i, 0, 1, 0, false, -1); g.groups.push_back({ s0, (int)kk, 0 });
      int hb = (g.heaps[5].alive && ch.chance(1, 3)) ? 5 : 0;
      if (ch.chance(1, 2)) { g.out.push_back(Op("free").u("s", (uint64_t)s0)); g.note_free(s0); }   // a cross-thread free into the abandoned segment (with reclaim-on-free: an adoption attempt)
      int s1 = g.next_slot; g.next_slot += (int)nbig; { Op op("fill"); op.u("s", (uint64_t)s1).u("k", nbig).s("f", "malloc").u("n", MiB - 64).u("nt", 1); if (hb) op.u("h", (uint64_t)hb); g.out.push_back(op); } for (size_t i = 0; i < nbig; i++) g.note_alloc(s1 + (int)i, MiB - 64, 1, 0, false, hb ? hb : g.def); g.groups.push_back({ s1, (int)nbig, MiB - 64 });
      int s2 = g.next_slot; g.next_slot += (int)nsm; { Op op("fill"); op.u("s", (uint64_t)s2).u("k", nsm).s("f", "malloc").u("n", tn); if (hb) op.u("h", (uint64_t)hb); g.out.push_back(op); } for (size_t i = 0; i < nsm; i++) g.note_alloc(s2 + (int)i, tn, 1, 0, false, hb ? hb : g.def); g.groups.push_back({ s2, (int)nsm, tn });
      g.out.push_back(Op("rfree").u("s", (uint64_t)s1).u("k", nbig).u("step", 1).u("ph", 0)); for (size_t i = 0; i < nbig; i++) g.note_free(s1 + (int)i);
    } else g.step();
  }
  return g.out;
}

// ---------------------------------------------------------------- footprint measurement (C07, C11)
struct Footprint { size_t mapped = 0, regions = 0, resident = 0, big_outside = 0, small_outside = 0, arena_resident = 0; uintptr_t first_big = 0; size_t first_big_len = 0; size_t arenas = 0, arena_mapped = 0, arena_regions = 0; };
static Footprint measure_footprint() {
  Footprint f; static vf_region_t regs[8192]; size_t n = vf_regions(regs, 8192);
  struct Ar { uintptr_t lo, hi; }; std::vector<Ar> ars;
  for (int id = 1; id <= 64; id++) { size_t sz = 0; void* a = mi_arena_area((mi_arena_id_t)id, &sz); if (a == nullptr) break; ars.push_back({ (uintptr_t)a, (uintptr_t)a + sz }); }
  for (size_t i = 0; i < n; i++) {
    f.mapped += regs[i].len; f.regions++;
    uintptr_t lo = regs[i].addr, hi = lo + regs[i].len; size_t inside = 0;
    for (auto& a : ars) { uintptr_t l = std::max(lo, a.lo), h = std::min(hi, a.hi); if (l < h) inside += h - l; }
    size_t outside = regs[i].len - inside; f.arena_mapped += inside; if (inside) f.arena_regions++;
    if (inside == 0) { if (regs[i].len > 64*KiB) { f.big_outside++; if (!f.first_big) { f.first_big = lo; f.first_big_len = regs[i].len; } } else f.small_outside++; }
    else if (outside > 64*MiB) { /* arena mapping with slack from alignment: fine */ }
  }
  f.resident = vf_resident_pages(); f.arenas = ars.size();
  for (auto& a : ars) f.arena_resident += vf_resident_pages_in(a.lo, a.hi);
  return f;
}


// ---------------------------------------------------------------- C07: OS refusals
// Per-thread metadata is a small mapping of its own that is cached when the thread ends and released by a forced collect of the main thread.
// Its length is learned by behaviour in the zygote (appears when a thread has run, disappears on mi_collect(true)), so that the quiescence
// clause can tell it from the allocator's permanent small mappings (segment map parts, arena descriptors).
static std::vector<size_t> g_td_lens;
static std::map<size_t, long> small_region_lens() {
  std::map<size_t, long> out; static vf_region_t regs[8192]; size_t n = vf_regions(regs, 8192);
  std::vector<std::pair<uintptr_t, uintptr_t>> ars; for (int id = 1; id <= 64; id++) { size_t sz = 0; void* a = mi_arena_area((mi_arena_id_t)id, &sz); if (!a) break; ars.push_back({ (uintptr_t)a, (uintptr_t)a + sz }); }
  for (size_t i = 0; i < n; i++) { if (regs[i].len > 64*KiB) continue; bool in = false; for (auto& a : ars) if (regs[i].addr < a.second && a.first < regs[i].addr + regs[i].len) in = true; if (!in) out[regs[i].len]++; }
  return out;
}
static void learn_thread_metadata_len() {
  mi_free(mi_malloc(8)); mi_collect(true);
  auto a = small_region_lens();
  { ThreadJob j; j.is_alloc = true; j.n = 8; j.k = 1; j.f = "malloc"; run_thread(j); for (void* p : j.ptrs) mi_free(p); }
  auto b = small_region_lens(); mi_collect(true); auto c = small_region_lens();
  for (auto& kv : b) { long before = a.count(kv.first) ? a[kv.first] : 0, after = c.count(kv.first) ? c[kv.first] : 0; if (kv.second > before && after <= before) g_td_lens.push_back(kv.first); }
}
static long count_td_regions() { if (g_td_lens.empty()) return 0; auto m = small_region_lens(); long n = 0; for (size_t l : g_td_lens) if (m.count(l)) n += m[l]; return n; }
static void c07_event(int kind, void* addr, size_t len, int, int failed) {
  Exec* e = g_exec; if (!e) return;
  if (failed) { e->count(C_FAULT_HIT); if (kind == VF_UNMAP) e->refused_unmaps.push_back({ (uintptr_t)addr, len }); }
}
static int fault_kind_of(const std::string& k) { return k == "map" ? VF_MAP : k == "unmap" ? VF_UNMAP : k == "commit" ? VF_COMMIT : k == "protect" ? VF_PROTECT : k == "advise" ? VF_ADVISE : -1; }

void Exec::op_c07(const Op& op) {
  const std::string& nm = op.name;
  if (nm == "fault") { int k = fault_kind_of(op.str("kind")); if (k < 0) return;
#if defined(VF_SECURE_BUILD)
    // known finding F12 (secure build): a refused *unprotect* of a guard page (mprotect(RW) of one OS page when a segment is freed) leaves an
    // inaccessible page inside recycled memory and a later allocation crashes. Excluded by construction: one-page mprotect(RW) calls are not fault positions.
    if (!known_f12_off) vf_set_commit_min_len(4096);
#endif
    td_regions_base = count_td_regions();
    vf_arm(k, (long)op.num("k"), (int)op.num("pers")); allow_null = true; ever_faulted = true; return; }
  if (nm == "recover") {
    vf_disarm(); allow_null = false;
    r.counters[C_OS_MAP] = (uint64_t)vf_count(VF_MAP); r.counters[C_OS_UNMAP] = (uint64_t)vf_count(VF_UNMAP); r.counters[C_OS_COMMIT] = (uint64_t)vf_count(VF_COMMIT);
    r.counters[C_OS_PROTECT] = (uint64_t)vf_count(VF_PROTECT); r.counters[C_OS_ADVISE] = (uint64_t)vf_count(VF_ADVISE); os_counts_recorded = true;
    verify_all("before-recover", false);
    // recovery workload: everything must work again
    static const size_t sizes[] = { 1, 8, 48, 200, 1000, 4000, 9000, 40000, 70000, 300000, 2*MiB, 5*MiB, 20*MiB, 40*MiB };
    std::vector<uint8_t*> ps;
    for (size_t n : sizes) { for (int rep = 0; rep < (n < 70000 ? 20 : 1); rep++) { uint8_t* p = (uint8_t*)launder(n % 3 == 0 ? mi_zalloc(n) : mi_malloc(n)); if (!p) fail_now("recover-null", "op#%ld after the OS grants requests again mi_malloc(%zu) still returns NULL", opi, n);
        check_disjoint(p, mi_usable_size(p), -1, "recover"); p[0] = 0x11; p[n - 1] = 0x22; ps.push_back(p); } }
    { uint8_t* p = (uint8_t*)launder(mi_malloc_aligned(1000, 64*MiB)); if (!p) fail_now("recover-null", "op#%ld aligned allocation fails after recovery", opi); p[0] = 1; ps.push_back(p); }
    mi_heap_t* h = mi_heap_new(); if (!h) fail_now("recover-heap", "op#%ld mi_heap_new fails after recovery", opi);
    for (int i = 0; i < 50; i++) { void* p = mi_heap_malloc(h, 100 + (size_t)i * 37); if (!p) fail_now("recover-null", "op#%ld heap allocation fails after recovery", opi); memset(p, 0x33, 100); }
    mi_heap_destroy(h);
    { ThreadJob j; j.is_alloc = true; j.n = 5000; j.k = 10; j.f = "malloc"; run_thread(j); for (void* p : j.ptrs) { if (!p) fail_now("recover-thread", "op#%ld allocation in a fresh thread fails after recovery", opi); ((uint8_t*)p)[4999] = 1; mi_free(p); } }
    for (uint8_t* p : ps) mi_free(p);
    verify_all("after-recover", false);
    return;
  }
  if (nm == "quiesce") {
    for (int s = 0; s < NSLOTS; s++) if (m.slots[s].live) { Blk& b = m.slots[s]; if (b.stranded) continue; verify_blk(s, "quiesce"); uint8_t* p = b.p; model_remove(s, false); mi_free(p); }
    for (int h = 2; h < NHEAPS; h++) if (m.heaps[h].alive) { mi_heap_delete(m.heaps[h].h); m.heaps[h].alive = false; if (m.def == h) m.def = 1; }
    mi_collect(true); vf_clock_advance(500); mi_collect(true);
    AreaStat st = area_stats(); if (st.used_blocks != 0) fail_now("quiesce-used", "op#%ld after free-all and a forced collect the heap still reports %zu used blocks", opi, st.used_blocks);
    Footprint f = measure_footprint();
    // regions whose munmap the shim itself refused are expected to remain
    size_t excuse = 0; { static vf_region_t regs[8192]; size_t n = vf_regions(regs, 8192); for (size_t i = 0; i < n; i++) for (auto& ru : refused_unmaps) if (regs[i].addr < ru.first + ru.second && ru.first < regs[i].addr + regs[i].len && regs[i].len > 64*KiB) { excuse++; break; } }
    bool other_subproc = (m.subprocs[0] != nullptr || m.subprocs[1] != nullptr);   // memory left in a sub-process without threads can only be released by a thread of that sub-process
    if (!other_subproc && !ever_faulted && opt_purge_delay >= 0 && opt_purge_decommits && f.arena_resident > 64) fail_now("arena-still-committed", "op#%ld after free-all and a forced collect %zu pages inside arenas are still resident (a freed segment was not released?)", opi, f.arena_resident);
    if (other_subproc) return;
    if (td_regions_base >= 0 && !g_td_lens.empty()) { long now = count_td_regions(); long small_excuse = 0; for (auto& ru : refused_unmaps) for (size_t l : g_td_lens) if (ru.second == l) small_excuse++;
      if (now > td_regions_base + small_excuse) fail_now("thread-metadata-not-given-back", "op#%ld after recovery, free-all and a forced collect %ld mapping(s) of the size of a thread's metadata (%zu bytes) are still mapped (%ld before the workload, %ld explained by refused munmap): every thread has ended", opi, now, g_td_lens[0], td_regions_base, small_excuse); }
    if (f.big_outside > excuse) fail_now("not-given-back", "op#%ld after recovery, free-all and a forced collect %zu non-arena region(s) are still mapped (%zu explained by refused munmap), first [%p,+%zu)", opi, f.big_outside, excuse, (void*)f.first_big, f.first_big_len);
    return;
  }
}

static Case gen_c07_workload(Chooser& ch) {
  Case c;
  switch (ch.pick(6)) { case 0: case 1: break;
    case 2: c.push_back(Op("opt").s("name", "arena_eager_commit").u("v", 0)); c.push_back(Op("opt").s("name", "eager_commit").u("v", 0)); c.push_back(Op("opt").s("name", "eager_commit_delay").u("v", 0)); break;
    case 3: c.push_back(Op("opt").s("name", "purge_delay").u("v", 0)); if (ch.chance(1, 2)) c.push_back(Op("opt").s("name", "arena_eager_commit").u("v", 0)); break;
    case 4: c.push_back(Op("opt").s("name", "disallow_arena_alloc").u("v", 1)); break;
    default: c.push_back(Op("opt").s("name", "arena_reserve").u("v", 64*1024)); break; }
  c.push_back(Op("fault"));   // placeholder, filled in by the enumerator
  Profile pf; pf.min_ops = 8; pf.max_ops = 36; pf.w_visit = 1; pf.w_heap = 4; pf.w_talloc = 3; pf.w_tfree = 2; pf.w_collect = 4; pf.w_tick = 2; pf.p_aligned = 20; pf.arenas = false;
  unsigned shape = (unsigned)ch.pick(6);
  if (shape == 0) { pf.big_ok = false; } else if (shape == 1) { pf.w_fill = 10; pf.big_ok = false; } else if (shape == 2) { pf.p_aligned = 40; } else if (shape == 3) { pf.w_heap = 14; pf.p_heap_api = 60; pf.big_ok = false; } else if (shape == 4) { pf.w_talloc = 10; pf.w_tfree = 6; }
  Gen g(ch, pf);
  if (shape == 2) { for (int i = 0; i < 2; i++) { int s = g.new_slot(); g.out.push_back(Op("alloc").u("s", (uint64_t)s).s("f", i ? "malloc_aligned" : "malloc").u("n", (size_t)ch.range(17*MiB, 50*MiB)).u("a", i ? (size_t)1 << ch.range(22, 26) : 16).u("nt", 1)); g.note_alloc(s, 0, 1, 0, false, 1); } }
  if (shape == 5) { g.out.push_back(Op("arena").u("i", 0).u("size", 128*MiB).u("commit", 0).u("excl", 1)); g.arena_valid[0] = true; g.out.push_back(Op("hnew").u("h", 2).s("kind", "arena").u("ar", 0)); g.heaps[2].alive = true; g.heaps[2].arena = 0; g.pf.p_heap_api = 70; }
  Case body = g.history(); for (auto& op : body) c.push_back(op);
  c.push_back(Op("recover")); c.push_back(Op("quiesce"));
  return c;
}

// ---------------------------------------------------------------- C11: give-back at quiescence, no creep over repetitions
static void c11_event(int kind, void* addr, size_t len, int, int) { if (g_exec) g_exec->count(C_OSCALLS); if (getenv("VF_TRACE_MAPS") && (kind == VF_MAP || kind == VF_UNMAP) && len >= 4*MiB) fprintf(stderr, "op#%ld %s %p +%zu MiB\n", g_exec ? g_exec->opi : -1, kind == VF_MAP ? "map" : "unmap", addr, len / MiB); }

static Case gen_c11(Chooser& ch) {
  Profile pf; pf.min_ops = 6; pf.max_ops = 40; pf.w_heap = 3; pf.w_visit = 0; pf.w_verify = 0; pf.w_talloc = 4; pf.w_tfree = 3; pf.p_aligned = 25; pf.w_churn = 1;
  Gen g(ch, pf); Case c;
  // configuration
  switch (ch.pick(4)) { case 0: break; case 1: c.push_back(Op("opt").s("name", "disallow_arena_alloc").u("v", 1)); break;
    case 2: c.push_back(Op("opt").s("name", "arena_reserve").u("v", 64*1024)); break; default: c.push_back(Op("opt").s("name", "arena_reserve").u("v", 32*1024)); break; }
  static const std::vector<long> pd = { 10, 10, 0, -1, 1 }; long d = ch.of(pd); if (d != 10) c.push_back(Op("opt").s("name", "purge_delay").i("v", d));
  if (ch.chance(1, 5)) c.push_back(Op("opt").s("name", "eager_commit_delay").u("v", 0));
  // forced abandonment of the thread's own segments (option, or mi_collect_reduce ops in the body): everything must still be given back
  if (ch.chance(1, 4)) { c.push_back(Op("opt").s("name", "target_segments_per_thread").u("v", ch.chance(1, 2) ? 2 : 4)); g.forced = true; } else if (ch.chance(1, 4)) g.forced = true;
  if (g.forced) { c.push_back(Op("cfg").u("forced", 1)); g.pf.w_collect += 4; }
  size_t reps = ch.chance(1, 2) ? 6 : (size_t)ch.range(6, 10);   // (>= 3 repetitions after the warm-up, so that repeated growth can be told from a single step)
  c.push_back(Op("rep").u("n", reps));
  // body: a workload shape + random history
  unsigned shape = (unsigned)ch.pick(9);
  if (shape == 8) {
    // threads that leave segments behind in both places: D threads whose only block is aligned to 64/128 MiB (such a segment comes straight from the OS
    // and is abandoned on the sub-process list), then A threads with ordinary blocks (arena segments, abandoned in the arena bitmaps); frees and collects in
    // between decide who pops what from which list. Everything must be found again and given back at quiescence, in every repetition.
    int D = (int)ch.range(1, 3), A = (int)ch.range(1, 3); std::vector<int> ds, as2;
    for (int i = 0; i < D; i++) { int s = g.new_slot(); if (s < 0) break; ds.push_back(s); c.push_back(Op("talloc").u("s", (uint64_t)s).u("k", 1).u("n", ch.range(1, 100*KiB)).u("a", ch.chance(1, 2) ? 64*MiB : 128*MiB)); }
    switch (ch.pick(4)) { case 0: break; case 1: c.push_back(Op("collect").u("force", 1)); break;
      case 2: for (int s : ds) c.push_back(Op("free").u("s", (uint64_t)s)); c.push_back(Op("collect").u("force", 1)); break;
      default: for (int s : ds) c.push_back(Op("free").u("s", (uint64_t)s)); c.push_back(Op("collect").u("force", 0)); { int s = g.new_slot(); if (s >= 0) { c.push_back(Op("alloc").u("s", (uint64_t)s).s("f", "malloc").u("n", 6*MiB).u("nt", 1)); c.push_back(Op("free").u("s", (uint64_t)s)); } } break; }
    for (int i = 0; i < A; i++) { int k = (int)ch.range(1, 30); if (g.next_slot + k >= NSLOTS) break; int s0 = g.next_slot; g.next_slot += k; as2.push_back(s0); c.push_back(Op("talloc").u("s", (uint64_t)s0).u("k", (uint64_t)k).u("n", ch.range(16*KiB, 200*KiB))); 
      if (ch.chance(1, 2)) c.push_back(Op("rfree").u("s", (uint64_t)s0).u("k", (uint64_t)k).u("step", 1).u("ph", 0)); }
    if (ch.chance(1, 2)) c.push_back(Op("collect").u("force", ch.chance(1, 2)));
    if (ch.chance(1, 3)) { Profile p2 = pf; p2.min_ops = 2; p2.max_ops = 10; p2.big_ok = false; g.pf = p2; Case body = g.history(); for (auto& op : body) c.push_back(op); }
    c.push_back(Op("endrep"));
    return c;
  }
  if (shape == 7) {
    // an arena with more than 64 blocks (two bitmap fields): 66-72 sparsely touched huge blocks take one arena block each; they are freed in a few
    // rounds with time passing in between, so that delayed arena purges expire and are run by a later free (not by the forced collect); by the end of
    // the body everything is freed -- the last free into the arena is the one that finds expired purges -- and quiescence must leave nothing committed
    Case c2; for (auto& op : c) { if (op.name == "opt" && (op.str("name") == "arena_reserve" || op.str("name") == "disallow_arena_alloc")) continue; if (op.name == "rep") c2.push_back(Op("opt").s("name", "arena_reserve").u("v", (uint64_t)4 * 1024 * 1024)); c2.push_back(op); } c = c2;
    int k = (int)ch.range(66, 72); int s0 = g.next_slot; g.next_slot += k;
    c.push_back(Op("fill").u("s", (uint64_t)s0).u("k", (uint64_t)k).s("f", "malloc").u("n", (size_t)ch.range(17*MiB, 20*MiB)).u("nt", 1));
    static const std::vector<size_t> ticks = { 0, 5, 50, 150, 3000 };
    int rounds = (int)ch.range(0, 3);
    for (int r = 0; r < rounds; r++) { int a = (int)ch.range(0, (uint64_t)k - 1), len = (int)ch.range(1, (uint64_t)(k - a)), step = (int)ch.range(1, 3);
      c.push_back(Op("rfree").u("s", (uint64_t)(s0 + a)).u("k", (uint64_t)len).u("step", (uint64_t)step).u("ph", 0));
      size_t t = ch.of(ticks); if (t) c.push_back(Op("tick").u("ms", t)); if (ch.chance(1, 4)) c.push_back(Op("collect").u("force", 0)); }
    int last = s0 + (int)ch.range(0, (uint64_t)k - 1);   // freed last, after the others and after some time
    if (last > s0) c.push_back(Op("rfree").u("s", (uint64_t)s0).u("k", (uint64_t)(last - s0)).u("step", 1).u("ph", 0));
    if (last < s0 + k - 1) c.push_back(Op("rfree").u("s", (uint64_t)(last + 1)).u("k", (uint64_t)(s0 + k - 1 - last)).u("step", 1).u("ph", 0));
    size_t t = ch.of(ticks); if (t) c.push_back(Op("tick").u("ms", t));
    c.push_back(Op("free").u("s", (uint64_t)last));
    if (ch.chance(1, 3)) { Profile p2 = pf; p2.min_ops = 2; p2.max_ops = 10; p2.big_ok = false; g.pf = p2; Case body = g.history(); for (auto& op : body) c.push_back(op); }
    c.push_back(Op("endrep"));
    return c;
  }
  auto big = [&](const char* f, size_t n, size_t a, int k) { for (int i = 0; i < k; i++) { int s = g.new_slot(); if (s < 0) return; Op op("alloc"); op.u("s", (uint64_t)s).s("f", f).u("n", n); if (a) op.u("a", a); op.u("nt", 1); g.out.push_back(op); g.note_alloc(s, 0, a ? a : 1, 0, false, 1); } };
  switch (shape) {
    case 0: break;                                                                                       // small / random only
    case 1: big("malloc", (size_t)ch.range(64*KiB + 1, 4*MiB), 0, (int)ch.range(2, 12)); break;          // large pages
    case 2: big("malloc", (size_t)ch.range(16*MiB + 1, 100*MiB), 0, (int)ch.range(1, 3)); break;         // huge / multi-segment
    case 3: big("malloc_aligned", (size_t)ch.range(1, 8*MiB), (size_t)1 << ch.range(25, 27), (int)ch.range(1, 2)); break;   // aligned-huge
    case 4: big("malloc", 8*MiB - 64*KiB, 0, (int)ch.range(130, 150)); break;                           // > 34 segments (beyond the first arena)
    case 5: for (int t = (int)ch.range(33, 40); t > 0; t--) { int s = g.new_slot(); if (s < 0) break; g.out.push_back(Op("talloc").u("s", (uint64_t)s).u("k", 1).u("n", ch.range(1, 2000))); g.note_alloc(s, 0, 1, 0, false, -1); } break;   // > 32 exited threads
    default: big("zalloc", (size_t)ch.range(16*MiB + 1, 40*MiB), 0, 1); big("malloc", (size_t)ch.range(64*KiB, MiB), 0, 4); break;
  }
  g.pf.big_ok = (shape != 4);
  Case body = g.history();
  for (auto& op : body) c.push_back(op);
  c.push_back(Op("endrep"));
  return c;
}

static void exec_c11(const Case& c, Exec& ex) {
  ex.m.heaps[1].h = mi_heap_get_backing(); ex.m.heaps[1].alive = true; ex.m.def = 1;
  mi_register_error(&hist_error_fun, nullptr); mi_register_output(&hist_output_fun, nullptr);
  vf_set_event_fn(&c11_event);
  size_t i = 0; long purge_delay = 10; bool decommits = true;
  for (; i < c.size() && c[i].name != "rep"; i++) { ex.opi = (long)i; if (c[i].name == "opt") { if (c[i].str("name") == "purge_delay") purge_delay = (long)c[i].snum("v"); if (c[i].str("name") == "purge_decommits") decommits = c[i].snum("v") != 0; } ex.do_op(c[i]); }
  if (i >= c.size()) { ex.finish(); return; }
  size_t reps = c[i].num("n", 4); if (reps > 64) reps = 64; size_t b0 = i + 1, b1 = b0; while (b1 < c.size() && c[b1].name != "endrep") b1++;
  std::vector<Footprint> fps; size_t os_maps_before = (size_t)vf_count(VF_MAP);
  for (size_t r = 0; r < reps; r++) {
    for (size_t k = b0; k < b1; k++) { ex.opi = (long)k; eng::g_cur_op = (long)k; if (getenv("VF_SHOW_ARENAS_AT") && atol(getenv("VF_SHOW_ARENAS_AT")) == (long)k) { fprintf(stderr, "== rep %zu before op#%zu\n", r, k); mi_debug_show_arenas(); } int e0 = ex.mi_errors[0] + ex.mi_errors[1] + ex.mi_errors[2]; ex.do_op(c[k]);
      if (ex.mi_errors[0] + ex.mi_errors[1] + ex.mi_errors[2] != e0) fail_now("mi-error", "op#%ld rep %zu: allocator reported an error (%d)", ex.opi, r, ex.last_err); }
    // quiescence: free everything, release all heaps, forced collect
    ex.verify_all("before-quiesce", true);
    for (int s = 0; s < NSLOTS; s++) if (ex.m.slots[s].live) { Blk& b = ex.m.slots[s]; if (b.stranded) fail_now("harness", "stranded block in C11"); uint8_t* p = b.p; ex.model_remove(s, false); mi_free(p); }
    for (int h = 2; h < NHEAPS; h++) if (ex.m.heaps[h].alive) { mi_heap_delete(ex.m.heaps[h].h); ex.m.heaps[h].alive = false; if (ex.m.def == h) ex.m.def = 1; }
    if (ex.m.def != 1) { mi_heap_set_default(ex.m.heaps[1].h); ex.m.def = 1; }
    mi_collect(true);
    vf_clock_advance(200); mi_collect(true);    // lets delayed purges expire as well (quiescence is what is asserted, not timing)
    fps.push_back(measure_footprint());
    if (getenv("VF_SHOW_ARENAS")) { fprintf(stderr, "== after repetition %zu: mapped=%zu regions=%zu\n", r, fps.back().mapped, fps.back().regions); mi_debug_show_arenas(); }
  }
  const Footprint& L = fps.back();
  size_t os_maps = (size_t)vf_count(VF_MAP) - os_maps_before;
  // Oracle A: nothing obtained directly from the OS is still mapped (arenas and <= 64 KiB bookkeeping maps excepted)
  if (L.big_outside > 0) fail_now("os-region-still-mapped", "after free-all + mi_collect(true): %zu non-arena region(s) still mapped, first [%p,+%zu)", L.big_outside, (void*)L.first_big, L.first_big_len);
  if (L.small_outside > 40) fail_now("os-small-regions-leaked", "after free-all + mi_collect(true): %zu small non-arena mappings remain", L.small_outside);
  if (purge_delay >= 0 && decommits && L.arena_resident > 16) fail_now("arena-still-committed", "after free-all + mi_collect(true): %zu resident pages inside arenas (purge_delay=%ld)", L.arena_resident, purge_delay);
  // Oracle B: no creep from one repetition to the next (two warm-up repetitions)
  // Known finding F18: the number of reserved arenas (a high-water mark of the peak demand) can step up once in a late repetition, because the
  // peak depends on the phase of the allocator's periodic clean-up. Excluded by construction: memory outside arenas is compared strictly; for
  // arena reservations a single late step is tolerated (counted in excluded_by_guard) and only repeated growth is a violation. `cfg strict_creep=1`
  // (used by the committed replay of the finding) restores the literal reading.
  size_t arena_steps = 0, last_step = 0;
  for (size_t r = 3; r < fps.size(); r++) {
    size_t na0 = fps[r-1].mapped - fps[r-1].arena_mapped, na1 = fps[r].mapped - fps[r].arena_mapped;
    if (ex.strict_creep && fps[r].mapped > fps[r-1].mapped) fail_now("mapped-creep", "mapped bytes grew from repetition %zu to %zu: %zu -> %zu", r - 1, r, fps[r-1].mapped, fps[r].mapped);
    if (na1 > na0) fail_now("mapped-creep", "mapped bytes outside arenas grew from repetition %zu to %zu: %zu -> %zu", r - 1, r, na0, na1);
    if (fps[r].regions - fps[r].arena_regions > fps[r-1].regions - fps[r-1].arena_regions) fail_now("regions-creep", "mapping count (outside arenas) grew from repetition %zu to %zu: %zu -> %zu", r - 1, r, fps[r-1].regions - fps[r-1].arena_regions, fps[r].regions - fps[r].arena_regions);
    if (fps[r].arena_mapped > fps[r-1].arena_mapped) { arena_steps++; last_step = r; }
    if (purge_delay >= 0 && decommits && fps[r].resident > fps[r-1].resident + 16) fail_now("resident-creep", "resident pages grew from repetition %zu to %zu: %zu -> %zu", r - 1, r, fps[r-1].resident, fps[r].resident);
  }
  if (arena_steps >= 2) fail_now("arena-creep", "arena reservations grew in %zu of the %zu repetitions after the warm-up (last: repetition %zu, %zu -> %zu bytes in %zu arenas)", arena_steps, fps.size() - 3, last_step, fps[last_step-1].arena_mapped, fps[last_step].arena_mapped, fps[last_step].arenas);
  if (arena_steps == 1) ex.count(C_EXCLUDED);
  ex.opi = (long)c.size(); ex.finish();
  size_t arenas = 0; for (int id = 1; id <= 64; id++) { size_t sz; if (!mi_arena_area((mi_arena_id_t)id, &sz)) break; arenas++; }
  ex.r.nontrivial = (os_maps > arenas) ? 1 : 0;     // at least one region came directly from the OS (not an arena reservation)
}

static bool generate_special(const std::string& mode, Chooser& ch, uint64_t, Case& out) {
  if (mode == "C11") { out = gen_c11(ch); return true; }
  if (mode == "C18") { out = gen_c18(ch); return true; }
  if (mode == "C07") { out = gen_c07_workload(ch); return true; }
  if (mode == "C15") { out = gen_c15(ch); return true; }
  if (mode == "C17") { out = gen_c17(ch); return true; }   // the fault position is filled in by HistHarness::generate
  return false;
}
static bool execute_special(const std::string& mode, const Case& c, Exec& ex) {
  if (mode == "C11") { exec_c11(c, ex); return true; }
  return false;
}
