// Mode-specific generators and oracles layered on the common executor.
#pragma once
#include "hist_exec3.hpp"
#include "hist_gen.hpp"

// ---------------------------------------------------------------- C17 stub (filled in later)
void Exec::op_misuse(const Op&) {}

// ---------------------------------------------------------------- C13: purge police
static void purge_event(int kind, void* addr, size_t len, int arg, int failed) {
  Exec* e = g_exec; if (!e || failed) return;
  if (kind == VF_ADVISE || kind == VF_PROTECT || kind == VF_UNMAP) {
    e->count(C_PURGE_CALLS); if (e->m.nlive >= 8) e->flag(F_PURGE_SEEN);
    if (!e->police_purge) return;
    uintptr_t lo = (uintptr_t)addr, hi = lo + len;
    auto it = e->m.live.lower_bound(lo);
    if (it != e->m.live.begin()) { auto jt = it; --jt; Blk& b = e->m.slots[jt->second]; if (jt->first + b.u > lo && !(e->exempt_lo <= jt->first && jt->first < e->exempt_hi)) fail_now("purge-live", "op#%ld OS call kind %d on [%p,+%zu) hits live block %p(+%zu)", e->opi, kind, addr, len, b.p, b.u); }
    for (; it != e->m.live.end() && it->first < hi; ++it) { Blk& b = e->m.slots[it->second]; if (b.u == 0) continue; if (e->exempt_lo <= it->first && it->first < e->exempt_hi) continue; fail_now("purge-live", "op#%ld OS call kind %d on [%p,+%zu) hits live block %p(+%zu)", e->opi, kind, addr, len, b.p, b.u); }
  }
}
static void install_purge_police(Exec&) { vf_set_event_fn(&purge_event); }

static void gen_option_prefix(Gen&) {}
static bool generate_special(const std::string&, Chooser&, uint64_t, Case&) { return false; }
static bool execute_special(const std::string&, const Case&, Exec&) { return false; }
