// Shadow model + IR executor for single-thread API histories (harness `hist`).
#pragma once
#include "../engine/eng.hpp"
#include "../engine/vf_shim.h"
#include <mimalloc.h>
#include <pthread.h>
#include <sys/mman.h>
#include <cstdarg>
#include <unordered_set>
#include <unordered_map>

using eng::Op; using eng::Case; using eng::Result; using eng::fail_now;

#define KiB ((size_t)1024)
#define MiB (KiB*KiB)
static const size_t SEGMENT_SIZE = 32*MiB;
static const size_t SMALL_SIZE_MAX = 1024;         // MI_SMALL_SIZE_MAX
static const size_t BLOCK_ALIGNMENT_MAX = 16*MiB;  // MI_BLOCK_ALIGNMENT_MAX
static const size_t FULL_TOUCH_MAX = 1*MiB;
static const size_t MUST_SUCCEED_MAX = 64*MiB;

// ---- class flags (Result.flags)
enum {
  F_REUSE = 0, F_PAGE_FULL, F_PAGE_FREED, F_HOLES, F_HUGE, F_OVERALIGNED, F_OFFSET, F_HEAP_DEL, F_HEAP_DESTROY,
  F_REALLOC_INPLACE, F_REALLOC_MOVED, F_ZERO_ON_DIRTY, F_ZCHAIN_INPLACE, F_ZCHAIN_MOVED, F_TFREE, F_TALLOC, F_VISIT,
  F_VISIT_HOLES, F_VISIT_FULL, F_VISIT_STOP, F_EDGE_FAIL, F_PURGE_SEEN, F_LIVE8, F_MULTIHEAP, F_COLLECT, F_LARGEPAGE,
  F_MISUSE_DETECTED, F_ARENA, F_ABANDONED_VISIT, F_EXPAND, F_ARENA_FULL_NULL, F_EXCL_PRESSURE, F_ARENA_CAP, F_SUBPROC, F_FOREIGN_FREED, F_FORGE_TARGETED, F_DEFERRED_FREE, F_NFLAGS
};
static const char* FLAG_NAMES[] = {
  "addr_reuse","page_full","page_freed","page_holes","huge_block","overaligned","offset_aligned","heap_delete","heap_destroy",
  "realloc_inplace","realloc_moved","zero_on_dirty","zchain_inplace","zchain_moved","thread_free","thread_alloc","visit",
  "visit_holes","visit_full","visit_stop","edge_fail","purge_seen","live8","multi_heap","collect","large_page",
  "misuse_detected","arena","abandoned_visit","expand","arena_full_null","unbound_alloc_while_exclusive_arena_in_use","arena_capacity_counted","other_subprocess_blocks","foreign_block_freed_by_main","forged_link_with_chosen_target","freed_in_deferred_free_callback" };
// ---- counters
enum { C_ALLOCS = 0, C_FREES, C_REALLOCS, C_BYTES_VERIFIED, C_NULLS, C_EDGE_CALLS, C_VISITED_BLOCKS, C_EXCLUDED, C_PURGE_CALLS, C_OSCALLS, C_ZERO_CHECKED, C_OWN_CHECKS, C_OS_MAP, C_OS_UNMAP, C_OS_COMMIT, C_OS_PROTECT, C_OS_ADVISE, C_FAULT_HIT, C_NULL_UNDER_FAULT, C_DEFER_CALLS, C_NCOUNTERS };
static const char* COUNTER_NAMES[] = { "allocs","frees","reallocs","bytes_verified","null_returns","edge_calls","visited_blocks","excluded_by_guard","purge_calls","os_calls","zero_bytes_checked","ownership_checks","os_map_calls","os_unmap_calls","os_commit_calls","os_protect_calls","os_advise_calls","faults_hit","null_under_fault","deferred_free_callbacks_with_work" };

static inline void* launder(void* p) { __asm__ volatile("" : "+r"(p)); return p; }

// ---- byte pattern: every byte non-zero, depends on (key, offset)
static inline uint64_t pat_word(uint32_t key, size_t j) { return ((uint64_t)key * 0x9E3779B97F4A7C15ull + (uint64_t)j * 0xBF58476D1CE4E5B9ull) | 0x0101010101010101ull; }
static inline uint8_t pat_byte(uint32_t key, size_t i) { return (uint8_t)(pat_word(key, i >> 3) >> (8 * (i & 7))); }

static void pat_fill_full(uint8_t* p, size_t len, uint32_t key) {
  size_t i = 0;
  for (; i + 8 <= len; i += 8) { uint64_t w = pat_word(key, i >> 3); memcpy(p + i, &w, 8); }
  for (; i < len; i++) p[i] = pat_byte(key, i);
}
// returns offset of first mismatch or SIZE_MAX
static size_t pat_check_full(const uint8_t* p, size_t len, uint32_t key) {
  size_t i = 0;
  for (; i + 8 <= len; i += 8) { uint64_t w = pat_word(key, i >> 3), v; memcpy(&v, p + i, 8); if (v != w) { for (size_t k = 0; k < 8; k++) if (p[i+k] != pat_byte(key, i+k)) return i + k; } }
  for (; i < len; i++) if (p[i] != pat_byte(key, i)) return i;
  return SIZE_MAX;
}
// sampled offsets for big blocks: per 4 KiB page first, pseudo-random middle, last byte
template <class F> static void sampled_offsets(size_t len, uint32_t key, F f) {
  for (size_t pg = 0; pg * 4096 < len; pg++) {
    size_t base = pg * 4096, lim = (len - base < 4096 ? len - base : 4096);
    f(base); if (lim > 2) f(base + 1 + (size_t)(eng::mix(key, pg) % (lim - 2))); if (lim > 1) f(base + lim - 1);
  }
}
static bool full_touch(size_t len, uint32_t key) { return len <= FULL_TOUCH_MAX || ((key & 7) == 0 && len <= 64*MiB); }
static void pat_fill(uint8_t* p, size_t len, uint32_t key) {
  p = (uint8_t*)launder(p);
  if (full_touch(len, key)) pat_fill_full(p, len, key);
  else sampled_offsets(len, key, [&](size_t o) { p[o] = pat_byte(key, o); });
}
// check the first `upto` bytes of a pattern that was written with length `len` (sample geometry follows `len`)
static size_t pat_check(const uint8_t* p, size_t len, uint32_t key, size_t upto = SIZE_MAX) {
  p = (const uint8_t*)launder((void*)p);
  if (upto > len) upto = len;
  if (full_touch(len, key)) return pat_check_full(p, upto, key);
  size_t bad = SIZE_MAX; sampled_offsets(len, key, [&](size_t o) { if (bad == SIZE_MAX && o < upto && p[o] != pat_byte(key, o)) bad = o; }); return bad;
}
static size_t zero_check(const uint8_t* p, size_t lo, size_t hi) {   // first non-zero offset in [lo,hi) or SIZE_MAX
  p = (const uint8_t*)launder((void*)p);
  if (hi - lo <= 64*MiB) { for (size_t i = lo; i < hi; i++) if (p[i] != 0) return i; return SIZE_MAX; }
  for (size_t i = lo; i < hi; i += 509) if (p[i] != 0) return i;
  if (hi > lo && p[hi-1] != 0) return hi - 1;
  return SIZE_MAX;
}

struct Blk {
  uint8_t* p = nullptr; size_t n = 0, u = 0, a = 1, o = 0; int home = 0; bool zmode = false; uint32_t key = 0; bool live = false; int tag = 0;
  size_t written = 0;    // prefix holding the pattern
  bool foreign = false;  // allocated by a helper thread
  bool pristine = true;   // requested size unchanged since allocation (padding canary sits right after it)
  bool deferred = false; // handed to the program's deferred-free callback (mi_register_deferred_free): only the callback frees it
  bool stranded = false; // page was abandoned by mi_heap_delete of an incompatible heap inside a still-owned segment (known finding F5)
};
struct Hp { mi_heap_t* h = nullptr; bool alive = false; int kind = 0 /*0 backing,1 new,2 arena,3 tag*/; int tag = 0; int arena = -1; bool destroyable = false; bool pending_remote = false; };
struct ArenaInfo { mi_arena_id_t id; uint8_t* start; size_t size; bool exclusive; bool valid = false; uint8_t* outer = nullptr; size_t outer_size = 0; uint8_t* given = nullptr; size_t given_size = 0; };

static const int NSLOTS = 16384;
static const int NHEAPS = 8;
static const int NARENAS = 4;

struct Model {
  std::vector<Blk> slots; std::map<uintptr_t, int> live;   // start → slot
  Hp heaps[NHEAPS]; int def = 1;                           // heaps[1] = backing; index 0 = "the default heap API"
  ArenaInfo arenas[NARENAS];
  mi_subproc_id_t subprocs[2] = { nullptr, nullptr };   // C09: extra sub-processes (index 0,1); foreign blocks allocated there have home = -20 - index
  std::unordered_set<uintptr_t> freed_addrs;
  std::unordered_map<uintptr_t, uint32_t> dirty;           // block start → 1 if memory there was filled non-zero and freed
  uint32_t next_key = 1; size_t nlive = 0;
  Model() : slots(NSLOTS) {}
};

struct Watch { uintptr_t lo, hi; int slot; bool freed = false, purged = false; long freed_op = -1; long freed_ms = 0; bool saw_collect = false, saw_free_same_seg = false, spoiled = false; };
struct AreaStat { size_t areas = 0, full = 0, holes = 0, single = 0, used_blocks = 0; };

struct Exec;
static Exec* g_exec = nullptr;

struct Exec {
  Model m; Result& r; std::string mode; long opi = 0;
  bool check_zero = true;       // C04 clauses
  bool check_align = true;      // C03 clauses
  bool check_arena = false;     // C15 clauses
  bool check_own = false;       // C10 ownership sweeps
  bool police_purge = false;    // C13: purge ranges must not hit live blocks
  bool allow_null = false;      // OS faults armed → NULL is acceptable
  std::vector<std::pair<uintptr_t,size_t>> refused_unmaps; bool os_counts_recorded = false; bool ever_faulted = false;   // C07 (a refused map of a segment-map part leaves segments unregistered: mi_is_in_heap_region degrades by design)
  std::vector<Watch> watches; long purge_calls_seen = 0; long opt_purge_delay = 10, opt_purge_mult = 10; bool opt_purge_decommits = true; uintptr_t last_free_near_seg = 0;   // C18
  bool forced_abandon = false;  // target_segments_per_thread >= 2
  bool strict_creep = false;    // C11: literal reading of "no growth from one repetition to the next" (replay of known finding F18)
  long td_regions_base = -1;    // C07: mappings of thread-metadata size that existed before the workload
  bool visit_abandoned_on = false;
  int expect_err = 0;            // error code the running misuse op is about to provoke (debug build: the case ends when it is delivered)
  int pending_forge = 0;         // forged links the allocator has not reached yet (their EFAULT may arrive in a later op)
  bool stop_after_this_op = false;
  bool walk_unreliable = false; // after a detected free-list corruption the remainder of that list is dropped by design: heap walks are no longer exact
  bool known_f14_off = false; bool known_f19_off = false;
  bool known_f12_off = false;
  bool known_f5_off = false;    // replay of the F5 demonstration: do not exclude
  uintptr_t exempt_lo = 0, exempt_hi = 0;   // block being released inside a realloc call (purge police)
  size_t last_areas = 0; bool have_last_areas = false;
  int mi_errors[8] = {0}; int last_err = 0; int err_count = 0;
  std::vector<std::pair<int, uint8_t*>> deferred; bool defer_registered = false; bool in_deferred_cb = false; pthread_t defer_thread;   // blocks waiting for the deferred-free callback

  Exec(Result& rr, const std::string& md) : r(rr), mode(md) { g_exec = this; }

  void flag(int f) { r.flags |= (1ull << f); }
  void count(int c, uint64_t v = 1) { r.counters[c] += v; }

  // ----------------------------------------------------------------- model helpers
  mi_heap_t* heap_of(int idx) { if (idx <= 0 || idx >= NHEAPS || !m.heaps[idx].alive) return nullptr; return m.heaps[idx].h; }

  void check_disjoint(uint8_t* p, size_t u, int slot, const char* what) {
    uintptr_t lo = (uintptr_t)p, hi = lo + (u ? u : 1);
    auto it = m.live.upper_bound(lo);
    if (it != m.live.end() && it->first < hi) {
      Blk& b = m.slots[it->second];
      fail_now("overlap", "op#%ld %s: new block [%p,+%zu) slot %d overlaps live slot %d [%p,+%zu)", opi, what, p, u, slot, it->second, b.p, b.u);
    }
    if (it != m.live.begin()) { --it; Blk& b = m.slots[it->second]; uintptr_t bhi = it->first + (b.u ? b.u : 1);
      if (bhi > lo) fail_now("overlap", "op#%ld %s: new block [%p,+%zu) slot %d overlaps live slot %d [%p,+%zu)", opi, what, p, u, slot, it->second, b.p, b.u); }
  }
  void verify_blk(int s, const char* when, bool light = false) {
    Blk& b = m.slots[s]; if (!b.live) return;
    size_t bad;
    if (light && b.written > 1*KiB) {   // sampled: 3 bytes per OS page (any offset of a fully written block carries the pattern too)
      const uint8_t* p = (const uint8_t*)launder(b.p); bad = SIZE_MAX; bool fullw = full_touch(b.written, b.key);
      if (fullw) { for (size_t o = 0; o < 32 && bad == SIZE_MAX; o++) { if (p[o] != pat_byte(b.key, o)) bad = o; size_t e = b.written - 1 - o; if (bad == SIZE_MAX && p[e] != pat_byte(b.key, e)) bad = e; } }
      if (fullw && bad == SIZE_MAX) sampled_offsets(b.written, b.key ^ 0x5bd1e995u ^ (uint32_t)opi, [&](size_t o) { if (bad == SIZE_MAX && p[o] != pat_byte(b.key, o)) bad = o; });
      else bad = pat_check(b.p, b.written, b.key);
      count(C_BYTES_VERIFIED, (b.written >> 12) * 3 + 3);
    } else {
      bad = pat_check(b.p, b.written, b.key);
      count(C_BYTES_VERIFIED, b.written);
    }
    if (bad != SIZE_MAX) fail_now("contents", "op#%ld %s: slot %d block %p (n=%zu usable=%zu) byte %zu is 0x%02x expected 0x%02x", opi, when, s, b.p, b.n, b.u, bad, b.p[bad], pat_byte(b.key, bad));
  }
  void verify_neighbours(uintptr_t addr) {
    auto it = m.live.lower_bound(addr);
    if (it != m.live.end()) { auto nx = it; if (nx->first == addr) ++nx; if (nx != m.live.end()) verify_blk(nx->second, "neighbour-after", true); }
    if (it != m.live.begin()) { --it; verify_blk(it->second, "neighbour-before", true); }
  }
  void verify_all(const char* when, bool light = true) { for (auto& kv : m.live) verify_blk(kv.second, when, light); }

  void model_add(int s, uint8_t* p, size_t n, size_t a, size_t o, int home, bool zmode, const char* what) {
    Blk& b = m.slots[s];
    size_t u = mi_usable_size(p);
    if (u < n) fail_now("usable", "op#%ld %s: mi_usable_size(%p)=%zu < requested %zu", opi, what, p, u, n);
    { size_t u1 = mi_malloc_size(p), u2 = mi_malloc_usable_size(p); if (u1 != u || u2 != u) fail_now("usable-alias", "op#%ld %s: mi_malloc_size(%p)=%zu mi_malloc_usable_size=%zu but mi_usable_size=%zu", opi, what, p, u1, u2, u);
      if (mi_malloc_good_size(n) != mi_good_size(n)) fail_now("usable-alias", "op#%ld mi_malloc_good_size(%zu)=%zu but mi_good_size=%zu", opi, n, mi_malloc_good_size(n), mi_good_size(n)); }
    check_disjoint(p, u, s, what);
    check_arena_rules(p, u, home, what);
    b.p = p; b.n = n; b.u = u; b.a = a; b.o = o; b.home = home; b.zmode = zmode; b.key = m.next_key++; b.live = true; b.foreign = false; b.stranded = false; b.deferred = false; b.pristine = true;
    if (m.freed_addrs.count((uintptr_t)p)) flag(F_REUSE);
    if (u > 16*MiB) flag(F_HUGE); else if (u > 64*KiB) flag(F_LARGEPAGE);
    m.live[(uintptr_t)p] = s; m.nlive++;
    if (m.nlive >= 8) flag(F_LIVE8);
  }
  void model_fill(int s, bool sparse = false) {   // write the pattern after (optional) zero check
    Blk& b = m.slots[s];
    b.written = b.zmode ? b.n : b.u;
    if (sparse && b.written > 64) { b.written = 64; if (b.u > 64) { b.p[b.u - 1] = 0x5a; } }   // `nt=1`: touch only the first 64 bytes and the last byte
    pat_fill(b.p, b.written, b.key);
  }
  void model_remove(int s, bool dirtied) {
    Blk& b = m.slots[s];
    m.live.erase((uintptr_t)b.p); m.nlive--; b.live = false;
    for (auto& w : watches) if (w.slot == s && !w.freed && w.lo == (uintptr_t)b.p) { w.freed = true; w.freed_op = opi; w.freed_ms = vf_clock_now_ms(); }
    m.freed_addrs.insert((uintptr_t)b.p);
    if (dirtied && b.written > 0) m.dirty[(uintptr_t)b.p & ~(uintptr_t)0xFFFF] = 1;   // remember the 64 KiB slice as dirtied
  }
  bool was_dirty(uint8_t* p) { return m.dirty.count((uintptr_t)p & ~(uintptr_t)0xFFFF) != 0; }

  // C15: home >= 1: heap index; home <= -2: foreign thread heap bound to arena (-2 - home); home == -1: foreign unbound heap
  void check_arena_rules(uint8_t* p, size_t u, int home, const char* what) {
    if (!check_arena) return;
    int bound = (home >= 1 ? m.heaps[home].arena : (home <= -2 ? -2 - home : -1));
    uintptr_t lo = (uintptr_t)p, hi = lo + (u ? u : 1);
    if (bound >= 0 && m.arenas[bound].valid) { ArenaInfo& A = m.arenas[bound]; if (lo < (uintptr_t)A.start || hi > (uintptr_t)A.start + A.size) fail_now("outside-arena", "op#%ld %s: block [%p,+%zu) from a heap bound to arena %d lies outside the arena area [%p,+%zu)", opi, what, p, u, bound, A.start, A.size); }
    bool excl_in_use = false;
    for (int i = 0; i < NARENAS; i++) { ArenaInfo& E = m.arenas[i]; if (!E.valid || !E.exclusive) continue;
      if (i != bound && lo < (uintptr_t)E.start + E.size && (uintptr_t)E.start < hi) fail_now("exclusive-arena-leak", "op#%ld %s: block [%p,+%zu) from a heap that is not bound to exclusive arena %d lies inside it [%p,+%zu)", opi, what, p, u, i, E.start, E.size);
      if (i != bound) { auto it = m.live.lower_bound((uintptr_t)E.start); if (it != m.live.end() && it->first < (uintptr_t)E.start + E.size) excl_in_use = true; } }
    if (excl_in_use && bound < 0) flag(F_EXCL_PRESSURE);
  }
  void check_alignment(uint8_t* p, size_t n, size_t a, size_t o, const char* what) {
    if (!check_align) return;
    if (a > 1 && (((uintptr_t)p + o) & (a - 1)) != 0) fail_now("alignment", "op#%ld %s: (%p + %zu) not aligned to %zu", opi, what, p, o, a);
    if (o == 0) { size_t mina = (n >= 16 ? 16 : 8); if (((uintptr_t)p & (mina - 1)) != 0) fail_now("min-alignment", "op#%ld %s: %p (n=%zu) not %zu-aligned", opi, what, p, n, mina); }
  }
  void check_zeroed(uint8_t* p, size_t lo, size_t hi, const char* what) {
    if (!check_zero || hi <= lo) return;
    size_t bad = zero_check(p, lo, hi); count(C_ZERO_CHECKED, hi - lo);
    if (bad != SIZE_MAX) fail_now("zero", "op#%ld %s: block %p byte %zu of zero range [%zu,%zu) is 0x%02x", opi, what, p, bad, lo, hi, p[bad]);
  }

  // ----------------------------------------------------------------- areas (classification only)
  static bool area_cb(const mi_heap_t*, const mi_heap_area_t* area, void* block, size_t, void* arg) {
    if (block != nullptr) return true; AreaStat* st = (AreaStat*)arg; st->areas++;
    size_t cap = area->full_block_size ? area->reserved / area->full_block_size : 0;
    if (cap == 1) st->single++; else if (area->used == cap) st->full++; else if (area->used > 0) st->holes++;
    st->used_blocks += area->used; return true;
  }
  AreaStat area_stats() { AreaStat st; for (int i = 1; i < NHEAPS; i++) if (m.heaps[i].alive) mi_heap_visit_blocks(m.heaps[i].h, false, &area_cb, &st); return st; }
  void classify_areas() {
    AreaStat st = area_stats();
    if (st.full > 0) flag(F_PAGE_FULL);
    if (st.holes > 0) flag(F_HOLES);
    if (have_last_areas && st.areas < last_areas && m.nlive >= 8) flag(F_PAGE_FREED);
    last_areas = st.areas; have_last_areas = true;
  }

  void run(const Case& c);
  void do_op(const Op& op);
  void op_alloc(const Op& op); void op_free(const Op& op); void op_realloc(const Op& op); void op_expand(const Op& op);
  void op_fill(const Op& op); void op_rfree(const Op& op, bool threaded); void op_talloc(const Op& op);
  void op_heap(const Op& op); void op_visit(const Op& op); void op_census(const Op& op); void op_edge(const Op& op); void op_arena(const Op& op);
  void op_opt(const Op& op); void op_misuse(const Op& op); void op_owncheck(); void op_c18(const Op& op); void op_c07(const Op& op); void op_acap(const Op& op);
  uint8_t* call_alloc(const std::string& f, int h, size_t n, size_t c, size_t a, size_t o, bool& zeroing, size_t& req, size_t& eff_a, size_t& eff_o, bool& valid);
  void free_slot(int s, const std::string& f);
  void op_defer(const Op& op); void run_deferred();
  void finish();
};
