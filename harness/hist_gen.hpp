// Generators for `hist` histories. Every choice is a draw from the choice stream.
#pragma once
#include "hist_model.hpp"
using eng::Chooser;

static std::vector<size_t> g_classes;       // distinct good sizes up to 64 KiB (size-class edges)
static void init_classes() {
  size_t last = 0; for (size_t s = 1; s <= 64*KiB; ) { size_t g = mi_good_size(s); if (g != last) { g_classes.push_back(g); last = g; } s = g + 1; }
}

struct GSlot { bool live = false; size_t n = 0, a = 1, o = 0; bool z = false; int home = 1; bool big = false; };
struct GGroup { int s0, k; size_t n; };
struct GHeap { bool alive = false; bool destroyable = false; int arena = -1; int tag = 0; };

struct Profile {
  // op family weights
  unsigned w_alloc = 30, w_free = 18, w_realloc = 8, w_expand = 1, w_fill = 6, w_holes = 5, w_drain = 3, w_tfree = 2, w_talloc = 1,
           w_heap = 4, w_collect = 3, w_visit = 2, w_verify = 1, w_tick = 0, w_edge = 0, w_churn = 2, w_zchain = 0, w_defer = 0;
  unsigned p_aligned = 15, p_zero = 20, p_heap_api = 25;   // percent
  unsigned p_offset = 30;       // of aligned allocs, percent with offset
  bool big_ok = true; bool zchains = false; bool arenas = false; int min_ops = 20, max_ops = 160;
  bool stop_visits = false;
  bool rare_api = false;   // string/environment duplicating entry points (mbsdup, wcsdup, dupenv_s, realpath)
};

struct Gen {
  Chooser& ch; Profile pf; Case out; std::vector<GSlot> sl; std::vector<GGroup> groups; GHeap heaps[NHEAPS]; int def = 1; int next_slot = 0;
  size_t live_bytes = 0; int nhuge = 0; std::vector<int> live_list; bool arena_valid[NARENAS] = {false,false,false,false}; bool arena_excl[NARENAS] = {false,false,false,false};
  Gen(Chooser& c, const Profile& p) : ch(c), pf(p), sl(NSLOTS) { heaps[1].alive = true; }

  // ---- sizes
  size_t draw_size() {
    static const std::vector<unsigned> w = { 22, 26, 10, 12, 8, 4, 2, 2, 1 };
    size_t k = ch.weighted(w); size_t n = 0;
    switch (k) {
      case 0: { static const std::vector<size_t> t = { 0, 1, 7, 8, 9, 15, 16, 17, 24, 31, 32, 33, 47, 48, 49, 63, 64 }; n = ch.chance(1, 2) ? ch.of(t) : ch.range(0, 64); break; }
      case 1: { size_t g = g_classes[ch.pick(g_classes.size() < 60 ? g_classes.size() : 60)]; if (ch.chance(1, 3)) g = ch.of(g_classes); size_t d = ch.pick(3); n = (d == 0 ? g : d == 1 ? (g > 0 ? g - 1 : 0) : g + 1); if (n > 8*KiB && !ch.chance(1,3)) n = g_classes[ch.pick(40)]; break; }
      case 2: n = ch.range(65, 8*KiB); break;
      case 3: { static const std::vector<size_t> t = { 8*KiB - 1, 8*KiB, 8*KiB + 1, 16*KiB, 32*KiB, 64*KiB - 1, 64*KiB }; n = ch.chance(1, 2) ? ch.of(t) : ch.range(8*KiB + 1, 64*KiB); break; }
      case 4: { static const std::vector<size_t> t = { 64*KiB + 1, 65*KiB, 100*KiB, 128*KiB, 256*KiB, 512*KiB - 1, 512*KiB, 512*KiB + 1 }; n = ch.chance(1, 2) ? ch.of(t) : ch.range(64*KiB + 1, 512*KiB); break; }
      case 5: n = ch.range(512*KiB, 4*MiB); break;
      case 6: { static const std::vector<size_t> t = { 16*MiB - 4*KiB, 16*MiB - 1, 16*MiB, 16*MiB + 1, 16*MiB + 4*KiB, 8*MiB }; n = ch.chance(1, 2) ? ch.of(t) : ch.range(4*MiB, 16*MiB); break; }
      case 7: { static const std::vector<size_t> t = { 32*MiB - 64*KiB, 32*MiB - 1, 32*MiB, 32*MiB + 1, 32*MiB + 64*KiB, 24*MiB }; n = ch.chance(1, 2) ? ch.of(t) : ch.range(16*MiB + 1, 33*MiB); break; }
      default: n = ch.range(33*MiB, 100*MiB); break;
    }
    if (!pf.big_ok && n > 4*MiB) n = ch.range(64*KiB, 1*MiB);
    if (n > 16*MiB) { if (nhuge >= 2) n = ch.range(64*KiB, 2*MiB); }
    if (live_bytes + n > 512*MiB) n = ch.range(0, 4*KiB);
    return n;
  }
  size_t draw_align() {
    static const std::vector<unsigned> w = { 30, 30, 20, 10, 6, 3, 1 };
    switch (ch.weighted(w)) {
      case 0: return (size_t)1 << ch.range(0, 5);        // 1..32
      case 1: return (size_t)1 << ch.range(6, 12);       // 64..4096
      case 2: return (size_t)1 << ch.range(13, 16);      // 8K..64K
      case 3: return (size_t)1 << ch.range(17, 22);      // 128K..4M
      case 4: return (size_t)1 << ch.range(23, 24);      // 8M,16M (MI_BLOCK_ALIGNMENT_MAX)
      case 5: return (size_t)1 << 25;                    // 32M (one segment)
      default: return (size_t)1 << ch.range(26, 27);     // 64M, 128M
    }
  }
  size_t draw_offset(size_t n, size_t a) {
    switch (ch.pick(10)) { case 0: return 8; case 1: return 16; case 2: return n / 2; case 3: return n ? n - 1 : 0; case 4: return n; case 5: return n + 8; case 6: return a > 8 ? a - 8 : 0; case 7: return a; case 8: return ch.range(0, 4*KiB); default: return ch.range(0, n + 16); }
  }

  // ---- slots
  int new_slot() { if (next_slot >= NSLOTS) return -1; return next_slot++; }
  void note_alloc(int s, size_t n, size_t a, size_t o, bool z, int home) { GSlot& g = sl[s]; g.live = true; g.n = n; g.a = a; g.o = o; g.z = z; g.home = home; g.big = n > 16*MiB; live_bytes += n; if (g.big) nhuge++; live_list.push_back(s); }
  void note_free(int s) { GSlot& g = sl[s]; if (!g.live) return; g.live = false; live_bytes -= g.n; if (g.big) nhuge--; }
  int pick_live() {   // LIFO / FIFO / random
    while (!live_list.empty() && !sl[live_list.back()].live) live_list.pop_back();
    if (live_list.empty()) return -1;
    for (int tries = 0; tries < 8; tries++) { size_t i; switch (ch.pick(3)) { case 0: i = live_list.size() - 1; break; case 1: i = ch.pick(live_list.size() < 8 ? live_list.size() : 8); break; default: i = ch.pick(live_list.size()); }
      if (sl[live_list[i]].live) return live_list[i]; }
    return live_list.back();
  }
  int pick_heap_api() {    // 0 = default-heap API, else explicit heap index
    if (!ch.chance(pf.p_heap_api, 100)) return 0;
    std::vector<int> hs; for (int i = 1; i < NHEAPS; i++) if (heaps[i].alive) hs.push_back(i); return ch.of(hs);
  }

  // ---- op emitters
  void emit_alloc_fields(Op& op, size_t n, int h, bool force_zero = false, bool no_align = false) {
    bool aligned = !no_align && ch.chance(pf.p_aligned, 100), zero = force_zero || ch.chance(pf.p_zero, 100);
    std::string f; size_t a = 1, o = 0, c = 1;
    if (aligned) {
      a = draw_align(); if (a > 16*MiB && live_bytes + n + 2*a > 700*MiB) a = 4096;
      while (cur_k > 1 && a > 16 && cur_k * (a + n) > 128*MiB) a >>= 1;
      bool off = ch.chance(pf.p_offset, 100) && a <= 16*MiB;
      if (off) o = draw_offset(n, a);
      static const std::vector<std::string> za = { "zalloc_aligned", "calloc_aligned" }, zat = { "zalloc_aligned_at", "calloc_aligned_at" };
      static const std::vector<std::string> na = { "malloc_aligned", "malloc_aligned", "posix_memalign", "memalign", "aligned_alloc", "new_aligned_nothrow", "new_aligned", "realloc_aligned_null" };
      if (zero) f = off ? ch.of(zat) : ch.of(za); else f = off ? std::string("malloc_aligned_at") : ch.of(na);
      if (ch.chance(1, 12) && !off && !zero) { f = ch.chance(1, 2) ? "valloc" : "pvalloc"; a = 4096; }
    } else {
      static const std::vector<std::string> zf = { "zalloc", "zalloc", "calloc", "zalloc_small", "rezalloc_null" };
      static const std::vector<std::string> nf = { "malloc", "malloc", "malloc", "malloc", "mallocn", "malloc_small", "strdup", "strndup", "new_nothrow", "new", "new_n", "realloc_null", "reallocarray_null" };
      static const std::vector<std::string> nfx = { "malloc", "malloc", "malloc", "malloc", "mallocn", "malloc_small", "strdup", "strndup", "new_nothrow", "new", "new_n", "realloc_null", "reallocarray_null", "mbsdup", "wcsdup", "dupenv", "realpath" };
      f = zero ? ch.of(zf) : (pf.rare_api ? ch.of(nfx) : ch.of(nf));
    }
    if ((f == "malloc_small" || f == "zalloc_small") && n > SMALL_SIZE_MAX) f = zero ? "zalloc" : "malloc";
    if ((f == "strdup" || f == "strndup" || f == "mbsdup" || f == "wcsdup") && n > 60000) f = "malloc";
    if (f == "dupenv" && n > 8000) f = "malloc"; if (f == "realpath" && (n > 64 || cur_k > 1)) f = "malloc";
    if (h && (f == "mbsdup" || f == "wcsdup" || f == "dupenv")) f = "strdup";
    if ((f == "new" || f == "new_n" || f == "new_aligned") && (n > MiB || a > MiB)) f = aligned ? "malloc_aligned" : "malloc";
    bool has_c = (f == "calloc" || f == "mallocn" || f == "calloc_aligned" || f == "calloc_aligned_at" || f == "new_n" || f == "reallocarray_null");
    if (has_c && n > 0) { static const std::vector<size_t> cs = { 1, 2, 3, 4, 7, 8, 16 }; c = ch.of(cs); size_t per = n / c; if (per == 0) { per = n; c = 1; } n = per; }
    op.s("f", f).u("n", n); if (has_c) op.u("c", c); if (aligned) { op.u("a", a); if (o) op.u("o", o); } if (h) op.u("h", (uint64_t)h);
    last_n = has_c ? n * c : n; last_a = aligned ? a : 1; last_o = o; last_z = (f.find("zalloc") != std::string::npos || f.find("calloc") != std::string::npos);
  }
  size_t last_n = 0, last_a = 1, last_o = 0; bool last_z = false; size_t cur_k = 1;

  void g_alloc(bool force_zero = false) {
    int s = new_slot(); if (s < 0) return; size_t n = draw_size(); int h = pick_heap_api();
    Op op("alloc"); op.u("s", (uint64_t)s); emit_alloc_fields(op, n, h, force_zero); out.push_back(op);
    note_alloc(s, last_n, last_a, last_o, last_z, h ? h : def);
  }
  void g_free() {
    int s = pick_live(); if (s < 0) { g_alloc(); return; }
    static const std::vector<std::string> ff = { "free", "free", "free", "free", "free_size", "free_size_aligned", "free_aligned", "cfree" };
    out.push_back(Op("free").u("s", (uint64_t)s).s("f", ch.of(ff))); note_free(s);
  }
  size_t realloc_target(size_t n) {
    size_t g = mi_good_size(n ? n : 1);
    switch (ch.pick(16)) {
      case 0: return 0; case 1: return 1; case 2: return n / 2 > 0 ? n / 2 - 1 : 0; case 3: return n / 2; case 4: return n / 2 + 1; case 5: return n ? n - 1 : 0; case 6: return n; case 7: return n + 1;
      case 8: return g ? g - 1 : 0; case 9: return g; case 10: return g + 1; case 11: return 2 * n; case 12: return mi_good_size(g + 1); case 13: return n + n / 4; default: return draw_size();
    }
  }
  size_t grow_target(size_t n) {   // monotone growth: n2 >= n, drawn around usable-size / class / page-kind boundaries
    size_t g = mi_good_size(n ? n : 1);
    switch (ch.pick(14)) {
      case 0: return n; case 1: return n + 1; case 2: return g > n ? g - 1 : n; case 3: return g; case 4: return g + 1; case 5: return mi_good_size(g + 1);
      case 6: return 2 * n + 1; case 7: return n + n / 4 + 1; case 8: return n + 8; case 9: return n + ch.range(1, 64); case 10: return mi_good_size(g + 1) + 1;
      case 11: { static const std::vector<size_t> e = { 1024, 1025, 8*KiB, 8*KiB + 1, 64*KiB, 64*KiB + 1, 512*KiB + 1 }; size_t t = ch.of(e); return t > n ? t : n + 1; }
      case 12: return n + ch.range(1, n + 16); default: return n + 16;
    }
  }
  void g_zchain() {
    int s = -1; for (int t = 0; t < 4 && s < 0; t++) { int c = pick_live(); if (c >= 0 && sl[c].z && sl[c].n < 4*MiB) s = c; }
    if (s < 0) { size_t before = out.size(); g_alloc(true); if (out.size() == before) return; s = next_slot - 1; if (!sl[s].live || !sl[s].z) return; }
    int steps = (int)ch.range(1, 8);
    for (int i = 0; i < steps && sl[s].live && sl[s].n < 8*MiB; i++) { g_realloc(s, true); if (ch.chance(1, 4)) step(); }
  }
  void g_realloc(int s = -1, bool zero_chain = false) {
    if (s < 0) s = pick_live(); if (s < 0) { g_alloc(); return; } GSlot& g = sl[s];
    size_t n2 = zero_chain ? grow_target(g.n) : realloc_target(g.n);
    if (n2 > 16*MiB && (nhuge >= 2 || live_bytes + n2 > 512*MiB)) n2 = g.n + 1;
    if (live_bytes + n2 > 600*MiB) n2 = g.n;
    bool al = (g.a > 16 || g.o != 0) ? ch.chance(3, 4) : ch.chance(pf.p_aligned, 300);
    bool zero = zero_chain || (g.z && ch.chance(3, 4)) || ch.chance(pf.p_zero, 300);
    std::string f; Op op("realloc"); op.u("s", (uint64_t)s);
    size_t c = 1; bool has_c = false; size_t oldn = g.n;
    if (al) {
      static const std::vector<std::string> za = { "rezalloc_aligned", "recalloc_aligned", "aligned_recalloc" }, zat = { "rezalloc_aligned_at", "recalloc_aligned_at", "aligned_offset_recalloc" };
      bool at = (g.o != 0) ? ch.chance(7, 8) : ch.chance(1, 4);
      if (zero) f = at ? ch.of(zat) : ch.of(za); else f = at ? "realloc_aligned_at" : "realloc_aligned";
      has_c = f.find("calloc") != std::string::npos;
      if (ch.chance(3, 4)) op.u("same", 1); else { size_t a = draw_align(); if (a > 16*MiB) a = 64*KiB; op.u("a", a); if (at) op.u("o", a <= 16*MiB ? draw_offset(n2, a) : 0); }
    } else {
      static const std::vector<std::string> zf = { "rezalloc", "rezalloc", "recalloc" };
      static const std::vector<std::string> nf = { "realloc", "realloc", "realloc", "reallocn", "reallocf", "reallocarray", "reallocarr", "new_realloc", "new_reallocn" };
      f = zero ? ch.of(zf) : ch.of(nf);
      if ((f == "new_realloc" || f == "new_reallocn") && n2 > MiB) f = "realloc";
      has_c = (f == "reallocn" || f == "recalloc" || f == "reallocarray" || f == "reallocarr" || f == "new_reallocn");
    }
    if (has_c && n2 > 0) { static const std::vector<size_t> cs = { 1, 2, 4, 8 }; c = ch.of(cs); size_t per = zero_chain ? (n2 + c - 1) / c : n2 / c; if (per == 0) { per = n2; c = 1; } n2 = per; }
    op.s("f", f).u("n", n2); if (has_c) op.u("c", c);
    int h = pick_heap_api(); if (h && f != "reallocarray" && f != "reallocarr" && f.find("new_") != 0 && f != "aligned_recalloc" && f != "aligned_offset_recalloc") op.u("h", (uint64_t)h);
    out.push_back(op);
    live_bytes -= g.n; if (g.big) nhuge--; g.n = n2 * c; g.big = g.n > 16*MiB; live_bytes += g.n; if (g.big) nhuge++;
    g.z = g.z && zero && (n2 * c >= oldn);
  }
  void g_expand() { int s = pick_live(); if (s < 0) return; GSlot& g = sl[s]; size_t gs = mi_good_size(g.n ? g.n : 1); static const std::vector<int> d = { -1, 0, 1 }; size_t n2 = ch.chance(1, 2) ? gs + ch.of(d) : ch.range(0, gs + 8); out.push_back(Op("expand").u("s", (uint64_t)s).u("n", n2)); }

  size_t class_capacity(size_t n) { size_t g = mi_good_size(n ? n : 1); if (g <= 8*KiB) return 64*KiB / g; if (g <= 64*KiB) return 512*KiB / g; return 1; }
  void g_fill(bool force_zero = false) {
    size_t n; switch (ch.pick(4)) { case 0: n = g_classes[ch.pick(20)]; break; case 1: n = ch.of(g_classes); break; case 2: n = ch.range(8*KiB + 1, 64*KiB); break; default: n = ch.range(1, 2048); }
    if (ch.chance(1, 12)) n = ch.range(64*KiB + 1, 600*KiB);
    size_t cap = class_capacity(n); size_t k;
    switch (ch.pick(6)) { case 0: k = cap > 1 ? cap - 1 : 1; break; case 1: k = cap; break; case 2: k = cap + 1; break; case 3: k = 2 * cap + 1; break; case 4: k = ch.range(2, 40); break; default: k = ch.range(cap / 2 + 1, cap * 3 + 2); }
    if (k > 9000) k = 9000; if (n > 64*KiB && k > 24) k = 24;
    while (k * n > 48*MiB && k > 1) k /= 2;
    if (live_bytes + k * n > 512*MiB) return;
    if (next_slot + (int)k > NSLOTS) return;
    int s0 = next_slot; next_slot += (int)k; int h = pick_heap_api();
    Op op("fill"); op.u("s", (uint64_t)s0).u("k", k); cur_k = k; emit_alloc_fields(op, n, h, force_zero, !ch.chance(1, 8)); cur_k = 1; out.push_back(op);
    for (size_t i = 0; i < k; i++) note_alloc(s0 + (int)i, last_n, last_a, last_o, last_z, h ? h : def);
    groups.push_back({ s0, (int)k, last_n });
  }
  void g_range_free(const char* opname, int mode /*0 holes,1 drain*/) {
    if (groups.empty()) { g_free(); return; } GGroup& g = groups[ch.pick(groups.size())];
    int step = 1, ph = 0;
    if (mode == 0) { static const std::vector<int> st = { 2, 2, 3, 4, 7 }; step = ch.of(st); ph = (int)ch.pick((size_t)step); if (ch.chance(1, 6)) { step = g.k > 1 ? g.k - 1 : 1; ph = 0; } }
    Op op(opname); op.u("s", (uint64_t)g.s0).u("k", (uint64_t)g.k).u("step", (uint64_t)step).u("ph", (uint64_t)ph);
    if (std::string(opname) == "rfree" && ch.chance(1, 4)) op.s("f", "free_size");
    out.push_back(op);
    for (int i = ph; i < g.k; i += step) note_free(g.s0 + i);
  }
  // one size class shared by over-aligned blocks (interior pointers: the page's has_aligned flag matters) and plain blocks, over several pages that
  // fill up, get holes, are picked again by the allocator (queue moves, full <-> not full) and then see frees of the aligned blocks and re-allocation
  void g_aligned_page() {
    static const std::vector<size_t> as = { 32, 64, 128, 256, 256, 512, 1024, 4096 }; size_t a = ch.of(as), n = ch.range(1, 3000); size_t cls = mi_good_size(n + a - 1); size_t cap = class_capacity(cls);
    if (cap < 2 || cap > 600) { g_fill(); return; }
    size_t k = ch.range(cap, 2 * cap + 2), k2 = ch.range(cap / 4 + 1, 2 * cap), k3 = ch.range(2, cap + 2);
    if (next_slot + (int)(k + k2 + k3) > NSLOTS || live_bytes + (k + k2 + k3) * cls > 512*MiB) return;
    int h = pick_heap_api(); int home = h ? h : def; auto fill = [&](size_t kk, const char* f, size_t nn, size_t aa) { int s0 = next_slot; next_slot += (int)kk; Op op("fill"); op.u("s", (uint64_t)s0).u("k", kk).s("f", f).u("n", nn); if (aa > 1) op.u("a", aa); if (h) op.u("h", (uint64_t)h); out.push_back(op);
      for (size_t i = 0; i < kk; i++) note_alloc(s0 + (int)i, nn, aa, 0, false, home); groups.push_back({ s0, (int)kk, nn }); return s0; };
    auto holes = [&](int s0, size_t kk, int step, int ph) { out.push_back(Op("rfree").u("s", (uint64_t)s0).u("k", kk).u("step", (uint64_t)step).u("ph", (uint64_t)ph)); for (int i = ph; i < (int)kk; i += step) note_free(s0 + i); };
    int sa = fill(k, "malloc_aligned", n, a);
    int step = (int)ch.range(2, 5); holes(sa, k, step, (int)ch.pick((size_t)step));
    fill(k2, "malloc", cls, 1);
    int step2 = (int)ch.range(2, 4); holes(sa, k, step2, (int)ch.pick((size_t)step2));   // (slots already freed are skipped by the executor)
    fill(k3, ch.chance(1, 2) ? "malloc" : "zalloc", cls, 1);
  }
  // over-aligned blocks (interior pointers) in pages that a thread leaves behind: the main thread adopts the pages (forced collect, or the need for a
  // fresh segment, or reclaim-on-free when that option is set), then uses the pointers locally: frees some, re-allocates the class, resizes others
  void g_aligned_thread() {
    static const std::vector<size_t> as = { 32, 64, 256, 1024, 4096, 4096 }; size_t a = ch.of(as), n = ch.range(1, 3000); size_t cls = mi_good_size(n + a - 1); size_t k = ch.range(2, 40), k2 = ch.range(2, 30);
    if (next_slot + (int)(k + k2) > NSLOTS || live_bytes + (k + k2) * cls > 512*MiB) return;
    int s0 = next_slot; next_slot += (int)k; out.push_back(Op("talloc").u("s", (uint64_t)s0).u("k", k).u("n", n).u("a", a)); for (size_t i = 0; i < k; i++) note_alloc(s0 + (int)i, n, a, 0, false, -1); groups.push_back({ s0, (int)k, n });
    switch (ch.pick(3)) { case 0: out.push_back(Op("collect").u("force", 1)); break; case 1: { int s = new_slot(); if (s >= 0) { out.push_back(Op("alloc").u("s", (uint64_t)s).s("f", "malloc").u("n", 6*MiB).u("nt", 1)); note_alloc(s, 6*MiB, 1, 0, false, def); } break; } default: break; }
    int step = (int)ch.range(2, 4); out.push_back(Op("rfree").u("s", (uint64_t)s0).u("k", k).u("step", (uint64_t)step).u("ph", ch.pick((size_t)step))); /* (generator bookkeeping: the freed ones) */
    { Op& last = out.back(); for (int i = (int)last.num("ph"); i < (int)k; i += step) note_free(s0 + i); }
    if (ch.chance(1, 2)) out.push_back(Op("collect").u("force", ch.chance(1, 2)));
    int f0 = next_slot; next_slot += (int)k2; out.push_back(Op("fill").u("s", (uint64_t)f0).u("k", k2).s("f", "malloc").u("n", cls)); for (size_t i = 0; i < k2; i++) note_alloc(f0 + (int)i, cls, 1, 0, false, def); groups.push_back({ f0, (int)k2, cls });
    out.push_back(Op("verify"));
  }
  // a small size class cycling through its queue: page A fills up and goes to the full queue, a second page B becomes the head, a few frees bring A
  // back behind B, B is exhausted (-> full queue) while A serves again, B is emptied completely and released, another size class takes a fresh page
  // (possibly B's slot), and the class is allocated again: every step moves queue heads, the full queue and the direct small-size table
  void g_queue_cycle() {
    static const std::vector<size_t> cs = { 1024, 1024, 512, 896, 640, 320, 256, 768, 160, 128 }; size_t S = ch.of(cs); size_t cap = class_capacity(S); if (cap < 4 || cap > 600) { g_fill(); return; }
    // (the real capacity is `cap` or one less, depending on the start offset of the page: the counts below leave that margin)
    size_t k1 = cap + ch.range(1, 2), nfree = ch.range(5, 8), est = 2 * cap - k1, k2 = est + 2, k3 = ch.range(2, 6), k4 = ch.range(2, 5); if (cap < 30) { g_fill(); return; }
    if (next_slot + (int)(k1 + k2 + k3 + k4) > NSLOTS || live_bytes + (k1 + k2 + k4) * S > 512*MiB) return;
    int h = pick_heap_api(); int home = h ? h : def;
    auto fill = [&](size_t kk, size_t nn) { int s0 = next_slot; next_slot += (int)kk; Op op("fill"); op.u("s", (uint64_t)s0).u("k", kk).s("f", "malloc").u("n", nn); if (h) op.u("h", (uint64_t)h); out.push_back(op); for (size_t i = 0; i < kk; i++) note_alloc(s0 + (int)i, nn, 1, 0, false, home); groups.push_back({ s0, (int)kk, nn }); return s0; };
    auto frees = [&](int s0, size_t kk, int step, int ph) { out.push_back(Op("rfree").u("s", (uint64_t)s0).u("k", kk).u("step", (uint64_t)step).u("ph", (uint64_t)ph)); for (int i = ph; i < (int)kk; i += step) note_free(s0 + i); };
    int g1 = fill(k1, S);                                                                  // page A full (-> full queue), 1-3 blocks in page B
    frees(g1, nfree * 3, 3, (int)ch.pick(3));                                              // a few blocks of A: A returns to the queue behind B
    int g2 = fill(k2, S);                                                                  // exhausts B (-> full queue), then 2-4 blocks from A
    frees(g1 + (int)cap - 2, k1 - cap + 2, 1, 0); frees(g2, est, 1, 0);                    // everything that lives in B (and 1-2 blocks next to it)
    if (ch.chance(1, 3)) out.push_back(Op("collect").u("force", 0));
    static const std::vector<size_t> other = { 32, 48, 16, 80, 96, 8, 64, 112 }; fill(k3, ch.of(other));
    fill(k4, S);
  }
  // park part of a group with the deferred-free callback: the allocator frees those blocks itself, from inside a later generic allocation or collect
  void g_defer() {
    if (groups.empty()) { g_fill(); return; } GGroup& g = groups[ch.pick(groups.size())];
    static const std::vector<int> st = { 1, 2, 2, 3 }; int step = ch.of(st), ph = (int)ch.pick((size_t)step);
    out.push_back(Op("defer").u("s", (uint64_t)g.s0).u("k", (uint64_t)g.k).u("step", (uint64_t)step).u("ph", (uint64_t)ph));
    for (int i = ph; i < g.k; i += step) note_free(g.s0 + i);
    if (ch.chance(1, 3)) out.push_back(Op("collect").u("force", ch.chance(1, 2)));
  }
  void g_churn() { int rounds = (int)ch.range(2, 5); for (int i = 0; i < rounds; i++) { size_t before = groups.size(); g_fill(); if (groups.size() > before) { GGroup g = groups.back(); out.push_back(Op("rfree").u("s", (uint64_t)g.s0).u("k", (uint64_t)g.k).u("step", 1).u("ph", 0)); for (int j = 0; j < g.k; j++) note_free(g.s0 + j); } } }
  void g_talloc() {
    size_t n = ch.chance(1, 2) ? ch.of(g_classes) : ch.range(1, 200*KiB); size_t k = ch.range(1, 40); if (k * n > 32*MiB) k = 1;
    if (pf.big_ok + census_ok > 0 && nhuge < 3 && ch.chance(1, 16)) { n = ch.range(16*MiB + 1, 24*MiB); k = 1; }   // a huge block (own segment) left behind by a thread
    if (next_slot + (int)k > NSLOTS || live_bytes + k * n > 512*MiB) return; int s0 = next_slot; next_slot += (int)k;
    Op op("talloc"); op.u("s", (uint64_t)s0).u("k", k).u("n", n); if (ch.chance(1, 4)) op.s("f", "zalloc");
    else if (k > 1 && n <= 8*KiB && ch.chance(1, 3)) { static const std::vector<size_t> as = { 32, 64, 256, 1024, 4096 }; op.u("a", ch.of(as)); }   // interior (over-allocated) pointers in pages the thread leaves behind
    else if (k == 1 && n <= 200*KiB && ch.chance(1, 3)) { static const std::vector<size_t> as = { 4096, 64*KiB, 4*MiB, 64*MiB, 64*MiB, 128*MiB }; op.u("a", ch.of(as)); }   // over-aligned block left behind (> 32 MiB: its segment comes straight from the OS) if (subprocs && ch.chance(1, 2)) op.u("sp", ch.pick(2)); out.push_back(op);
    for (size_t i = 0; i < k; i++) note_alloc(s0 + (int)i, n, 1, 0, false, -1);
    groups.push_back({ s0, (int)k, n });
  }
  void g_heap() {
    std::vector<int> alive, dead; for (int i = 2; i < NHEAPS; i++) (heaps[i].alive ? alive : dead).push_back(i);
    unsigned k = (unsigned)ch.pick(10);
    if ((k < 4 || alive.empty()) && !dead.empty()) {
      int h = dead[0]; Op op("hnew"); op.u("h", (uint64_t)h); GHeap& H = heaps[h]; H = GHeap(); H.alive = true;
      unsigned kind = (unsigned)ch.pick(8); int ar = -1; for (int i = 0; i < NARENAS; i++) if (arena_valid[i]) ar = i;
      if (kind < 5) { op.s("kind", "new"); H.destroyable = true; }
      else if (kind < 7 || ar < 0) { int tag = (int)ch.range(0, 3); bool d = ch.chance(1, 2); op.s("kind", "ex").u("tag", (uint64_t)tag).u("d", d); H.tag = tag; H.destroyable = d; if (ar >= 0 && ch.chance(1, 3)) { op.u("ar", (uint64_t)ar); H.arena = ar; } }
      else { op.s("kind", "arena").u("ar", (uint64_t)ar); H.arena = ar; }
      out.push_back(op); return;
    }
    if (alive.empty()) return; int h = ch.of(alive);
    if (k < 6) { out.push_back(Op("hdel").u("h", (uint64_t)h)); release_heap(h, false); }
    else if (k < 8) { out.push_back(Op("hdestroy").u("h", (uint64_t)h)); release_heap(h, true); }
    else { std::vector<int> all = alive; all.push_back(1); int t = ch.of(all); out.push_back(Op("hdefault").u("h", (uint64_t)t)); def = t; }
  }
  void release_heap(int h, bool destroy) {
    GHeap& H = heaps[h]; bool d = destroy && H.destroyable;
    for (int s = 0; s < next_slot; s++) if (sl[s].live && sl[s].home == h) { if (d) note_free(s); else sl[s].home = (H.tag == 0 && H.arena < 0) ? 1 : -1; }
    H.alive = false; if (def == h) def = 1;
  }
  void g_collect() { if (forced && ch.chance(1, 3)) { out.push_back(Op("reduce").u("target", ch.chance(1, 2) ? 0 : (size_t)ch.range(1, 3) * 32*MiB)); return; }
    if (ch.chance(1, 2)) out.push_back(Op("collect").u("force", ch.chance(1, 2))); else { std::vector<int> hs; for (int i = 1; i < NHEAPS; i++) if (heaps[i].alive) hs.push_back(i); out.push_back(Op("hcollect").u("h", (uint64_t)ch.of(hs)).u("force", ch.chance(1, 2))); } }
  bool census_ok = false; bool subprocs = false; bool forced = false;
  void g_visit() { if (census_ok && ch.chance(1, 3)) { Op cen("census"); if (pf.stop_visits && ch.chance(1, 3)) { if (ch.chance(1, 3)) cen.u("astop", 1).u("astoparea", ch.range(1, 6)); else cen.u("astop", ch.range(1, 1 + live_list.size())); } out.push_back(cen); return; } std::vector<int> hs; for (int i = 1; i < NHEAPS; i++) if (heaps[i].alive) hs.push_back(i); Op op("visit"); op.u("h", (uint64_t)ch.of(hs)); if (pf.stop_visits && ch.chance(1, 3)) { if (ch.chance(1, 4)) op.u("stoparea", ch.range(1, 8)); else op.u("stop", ch.range(1, 1 + 2 * live_list.size())); } out.push_back(op); }
  void g_arena() { for (int i = 0; i < NARENAS; i++) if (!arena_valid[i]) { bool ex = ch.chance(1, 2); out.push_back(Op("arena").u("i", (uint64_t)i).u("size", (size_t)ch.range(2, 6) * 32*MiB).u("commit", ch.chance(1, 4)).u("excl", ex)); arena_valid[i] = true; arena_excl[i] = ex; return; } }

  size_t edge_value(int kind) {
    const size_t SM = SIZE_MAX, PM = (size_t)PTRDIFF_MAX, MA = (size_t)64*KiB * (size_t)0xFFFFFFFEu;
    static const std::vector<size_t> ks = { 0, 1, 7, 8, 15, 16, 63, 64, 4095, 4096, 65535, 65536 };
    size_t k = ch.chance(1, 2) ? ch.of(ks) : ch.range(0, 70000);
    switch (kind) { case 0: return SM - k; case 1: return PM + 1 + k; case 2: return PM - k; case 3: return MA + 1 + k; case 4: return MA - k; default: return ((size_t)1 << ch.range(48, 63)) + k; }
  }
  void g_edge() {
    static const std::vector<std::string> plain = { "malloc", "zalloc", "new_nothrow", "valloc", "pvalloc" };
    static const std::vector<std::string> counted = { "calloc", "mallocn" };
    static const std::vector<std::string> al = { "malloc_aligned", "malloc_aligned_at", "zalloc_aligned", "zalloc_aligned_at", "posix_memalign", "memalign", "aligned_alloc", "new_aligned_nothrow" };
    static const std::vector<std::string> alc = { "calloc_aligned", "calloc_aligned_at" };
    static const std::vector<std::string> re = { "realloc", "reallocf", "rezalloc" };
    static const std::vector<std::string> rec = { "reallocn", "recalloc", "reallocarray", "reallocarr" };
    static const std::vector<std::string> rea = { "realloc_aligned", "realloc_aligned_at", "rezalloc_aligned" };
    static const std::vector<std::string> reac = { "recalloc_aligned", "recalloc_aligned_at", "aligned_recalloc" };
    Op op("edge"); unsigned fam = (unsigned)ch.pick(8); bool is_re = fam >= 4; int s = -1;
    if (is_re) { s = pick_live(); if (s < 0 || sl[s].n > MiB) { is_re = false; fam -= 4; } }
    std::string f; bool has_c = false, has_a = false;
    switch (fam) { case 0: f = ch.of(plain); break; case 1: f = ch.of(counted); has_c = true; break; case 2: f = ch.of(al); has_a = true; break; case 3: f = ch.of(alc); has_c = has_a = true; break;
                   case 4: f = ch.of(re); break; case 5: f = ch.of(rec); has_c = true; break; case 6: f = ch.of(rea); has_a = true; break; default: f = ch.of(reac); has_c = has_a = true; }
    // what goes wrong: 0 size too big, 1 count*size overflow, 2 bad alignment
    std::vector<unsigned> w = { 4, has_c ? 5u : 0u, has_a ? 5u : 0u }; size_t what = ch.weighted(w);
    size_t n = ch.range(1, 4096), c = 1, a = (size_t)1 << ch.range(3, 12), o = 0;
    if (what == 0 && has_a && ch.chance(1, 3)) a = (size_t)1 << ch.range(13, 27);   // (sizes near SIZE_MAX together with alignments up to several segments)
    if (what == 0) { n = edge_value((int)ch.pick(6)); if (has_c) { static const std::vector<size_t> cs = { 1, 1, 2, 3 }; c = ch.of(cs); } }
    else if (what == 1) {
      switch (ch.pick(5)) {
        case 0: n = ch.range(2, 1 << 20); c = SIZE_MAX / n + ch.pick(2); break;
        case 1: n = ((size_t)1 << 32) + ch.range(0, 16); c = ((size_t)1 << 32) + ch.range(0, 16); break;
        case 2: n = (size_t)1 << ch.range(1, 63); c = (size_t)1 << (64 - __builtin_ctzll(n)); if (c == 0) c = 2; break;   // product = 2^64
        case 3: n = SIZE_MAX; c = ch.range(2, 9); break;
        default: c = SIZE_MAX / 2 + 1 + ch.range(0, 8); n = ch.range(2, 64); break;
      }
      if (ch.chance(1, 2)) std::swap(n, c);
    } else {
      static const std::vector<size_t> bad = { 0, 3, 5, 6, 7, 12, 24, 48, 100, 1000, 4095, 4097, 65535, 65537, ((size_t)1 << 63) + 1, SIZE_MAX, SIZE_MAX - 1, ((size_t)1 << 32) + 1, ((size_t)1 << 32) - 1 };
      a = ch.of(bad);
    }
    if (f.find("_at") != std::string::npos) o = ch.chance(1, 2) ? 0 : ch.range(0, 4096);
    op.s("f", f).u("n", n); if (has_c) op.u("c", c); if (has_a) op.u("a", a); if (o) op.u("o", o); if (is_re) op.u("s", (uint64_t)s);
    if ((f == "reallocarray" || f == "reallocarr") && ch.chance(1, 2)) op.u("se", 1);
    int h = pick_heap_api(); bool heapable = !(f == "new_nothrow" || f == "valloc" || f == "pvalloc" || f == "posix_memalign" || f == "memalign" || f == "aligned_alloc" || f == "new_aligned_nothrow" || f == "reallocarray" || f == "reallocarr" || f == "aligned_recalloc");
    if (h && heapable) op.u("h", (uint64_t)h);
    out.push_back(op);
    if (is_re && f == "reallocf") note_free(s);
  }

  void step() {
    std::vector<unsigned> w = { pf.w_alloc, pf.w_free, pf.w_realloc, pf.w_expand, pf.w_fill, pf.w_holes, pf.w_drain, pf.w_tfree, pf.w_talloc, pf.w_heap, pf.w_collect, pf.w_visit, pf.w_verify, pf.w_tick, pf.w_churn, pf.w_edge, pf.w_zchain, pf.w_defer };
    switch (ch.weighted(w)) {
      case 0: g_alloc(); break; case 1: g_free(); break; case 2: g_realloc(); break; case 3: g_expand(); break; case 4: if (pf.p_aligned >= 50 && pf.w_talloc > 0 && ch.chance(1, 8)) g_aligned_thread(); else if (pf.p_aligned > 0 && ch.chance(1, 10)) g_aligned_page(); else if (pf.w_fill >= 6 && ch.chance(1, 12)) g_queue_cycle(); else g_fill(); break;
      case 5: g_range_free("rfree", 0); break; case 6: g_range_free("rfree", 1); break; case 7: g_range_free("tfree", (int)ch.pick(2)); break; case 8: g_talloc(); break;
      case 9: if (pf.arenas && ch.chance(1, 6)) g_arena(); else g_heap(); break; case 10: g_collect(); break; case 11: g_visit(); break; case 12: out.push_back(Op("verify")); break;
      case 13: { static const std::vector<size_t> ms = { 1, 5, 11, 50, 101, 1000, 5000 }; out.push_back(Op("tick").u("ms", ch.of(ms))); break; }
      case 14: g_churn(); break;
      case 15: g_edge(); break;
      case 17: g_defer(); break;
      default: g_zchain(); break;
    }
  }
  Case history() { int nops = (int)ch.range((uint64_t)pf.min_ops, (uint64_t)pf.max_ops); while ((int)out.size() < nops && !ch.exhausted()) step(); return out; }
};
