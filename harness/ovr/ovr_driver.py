#!/usr/bin/env python3
"""C19 driver: runs the override test program in four configurations ({C, C++} x {LD_PRELOAD=libmimalloc.so, mimalloc.o linked first})
and three system programs with and without the preload; prints one merged JSON summary.  usage: ovr_driver.py <builddir> --tier T --seed N | --replay FILE"""
import sys, os, json, subprocess, hashlib

bd = sys.argv[1]; args = sys.argv[2:]
so = os.path.join(bd, "cmake", "libmimalloc.so")
EXES = {"c_preload": ("ovr_c_dyn", True), "cpp_preload": ("ovr_cpp_dyn", True), "c_static": ("ovr_c_static", False), "cpp_static": ("ovr_cpp_static", False)}

def env_for(preload):
    e = {k: v for k, v in os.environ.items() if not k.upper().startswith("MIMALLOC_")}
    if preload: e["LD_PRELOAD"] = so
    else: e.pop("LD_PRELOAD", None)
    return e

if "--replay" in args:
    path = args[args.index("--replay") + 1]; lines = open(path).read().splitlines(); which = None
    for l in lines:
        if l.startswith("exec "): which = l.split()[1]
    if which == "system":
        print("system-program replays are re-run by the full check"); sys.exit(0)
    name, preload = EXES.get(which, EXES["cpp_preload"])
    r = subprocess.run([os.path.join(bd, name), "--replay", path], env=env_for(preload), stdout=subprocess.PIPE, text=True)
    sys.stdout.write(r.stdout); sys.exit(1 if (r.returncode != 0 or "FAIL" in r.stdout) else 0)

tier = args[args.index("--tier") + 1] if "--tier" in args else "quick"
seed = args[args.index("--seed") + 1] if "--seed" in args else "1"
tot = {"evaluations": 0, "distinct_nontrivial": 0, "violations": 0, "classes": {}, "samples": [], "violation_list": []}
procs = {which: subprocess.Popen([os.path.join(bd, name), "--tier", tier, "--seed", seed], env=env_for(preload), stdout=subprocess.PIPE, stderr=subprocess.PIPE, text=True) for which, (name, preload) in EXES.items()}
class _R: pass
for which, (name, preload) in EXES.items():
    r = _R(); r.stdout, r.stderr = procs[which].communicate(); r.returncode = procs[which].returncode
    tot["evaluations"] += 1
    try:
        d = json.loads((r.stdout.strip().splitlines() or [""])[-1])
    except Exception:
        d = None
    if d is None or r.returncode != 0:
        tot["violations"] += 1
        crash = [l for l in r.stderr.splitlines() if l.startswith("CRASH-AT ")]
        rp = crash[-1].split(" in: ", 1)[1] if crash and " in: " in crash[-1] else "errors"
        tot["violation_list"].append({"msg": "%s: the test program did not finish cleanly (exit %d): %s" % (which, r.returncode, (crash[-1] if crash else (r.stderr.strip().splitlines() or [""])[-1])[:200]), "replay": "exec %s\n%s" % (which, rp)})
        if d is None: continue
    tot["evaluations"] += d["evaluations"]; tot["distinct_nontrivial"] += d["distinct_nontrivial"]; tot["violations"] += d["violations"]
    tot["classes"][which + "_tuples"] = d["evaluations"]
    for k, v in d.get("classes", {}).items(): tot["classes"][which + "_" + k] = v
    if len(tot["samples"]) < 4: tot["samples"] += ["[%s] %s" % (which, s) for s in d.get("samples", [])[:1]]
    for v in d.get("violation_list", [])[:3]: tot["violation_list"].append({"msg": "%s: %s" % (which, v["msg"]), "replay": "exec %s\n%s" % (which, v["replay"])})
# whole programs under the preload must behave identically
gen = "\n".join(str((i * 7919 + int(seed) * 31) % 100003) for i in range(20000)) + "\n"
progs = [(["/bin/ls", "-lR", "/usr/include/linux"], None), (["python3", "-c", "import json,sys;d={str(i):[i]*5 for i in range(20000)};s=json.dumps(d);print(len(s), sum(map(len,json.loads(s).values())))"], None), (["sort", "-n"], gen)]
for cmd, inp in progs:
    outs = []
    for preload in (False, True):
        try:
            r = subprocess.run(cmd, env=env_for(preload), input=inp, stdout=subprocess.PIPE, stderr=subprocess.PIPE, text=True, timeout=300)
            outs.append((r.returncode, hashlib.sha1(r.stdout.encode()).hexdigest(), len(r.stdout)))
        except Exception as ex:
            outs.append((-1, str(ex), 0))
    tot["evaluations"] += 1
    if outs[0][0] == 0 and outs[0] == outs[1]:
        tot["distinct_nontrivial"] += 1; tot["classes"]["system_programs_identical"] = tot["classes"].get("system_programs_identical", 0) + 1
    elif outs[0][0] != 0:
        pass  # the program is not usable in this sandbox even without the preload: not evaluated
    else:
        tot["violations"] += 1; tot["violation_list"].append({"msg": "system program %s behaves differently under LD_PRELOAD=libmimalloc.so: without %s, with %s" % (" ".join(cmd[:2]), outs[0], outs[1]), "replay": "exec system\n" + " ".join(cmd)})
if len(tot["samples"]) < 5: tot["samples"].append("system programs `ls -lR /usr/include/linux`, `python3 -c <json round trip>`, `sort -n` on 20000 generated numbers: output with and without the preload compared byte for byte")
print(json.dumps(tot))
