// C19: drop-in override. This program does NOT link mimalloc's API: it uses only the platform's standard entry points and looks the
// allocator's own queries up with dlsym(RTLD_DEFAULT): under LD_PRELOAD=libmimalloc.so or with mimalloc.o linked first, every entry point
// must be served by that one allocator. Compiled twice: as C (-DOVR_C, C entry points only) and as C++ (adds operator new/delete in all forms).
//   ovr_prog --seed N --tier quick|thorough      -> JSON summary
//   ovr_prog --replay FILE
#define _GNU_SOURCE 1
#include <signal.h>
#include <stdio.h>
#include <stdlib.h>
#include <string.h>
#include <stdint.h>
#include <errno.h>
#include <malloc.h>
#include <dlfcn.h>
#include <unistd.h>
#include <limits.h>
#include <stdarg.h>
#include <stdbool.h>
#ifndef OVR_C
#include <new>
#include <vector>
#include <string>
#endif

#ifdef __cplusplus
extern "C" {
#endif
// resolved at link time in the static-override configuration (mimalloc.o is built with hidden visibility, so dlsym cannot see them), NULL otherwise
extern bool mi_is_in_heap_region(const void* p) __attribute__((weak));
extern size_t mi_usable_size(const void* p) __attribute__((weak));
#ifdef __cplusplus
}
#endif
static int in_region_static(const void* p) { return mi_is_in_heap_region(p) ? 1 : 0; }
typedef int (*in_region_fn)(const void*); typedef size_t (*usable_fn)(const void*);
static in_region_fn mi_in_region; static usable_fn mi_usable; typedef void (*cfree_fn)(void*); static cfree_fn p_cfree; typedef void* (*reallocarray_fn)(void*, size_t, size_t); static reallocarray_fn p_reallocarray;
static long n_eval, n_nontrivial, n_viol; static char viol[8][400]; static char viol_replay[8][120]; static int replaying;
static uint64_t rng_s; static uint64_t rnd(void) { uint64_t z = (rng_s += 0x9E3779B97F4A7C15ull); z = (z ^ (z >> 30)) * 0xBF58476D1CE4E5B9ull; z = (z ^ (z >> 27)) * 0x94D049BB133111EBull; return z ^ (z >> 31); }
static void violation(const char* rp, const char* fmt, ...) { va_list ap; va_start(ap, fmt); char b[400]; vsnprintf(b, sizeof b, fmt, ap); va_end(ap); if (n_viol < 8) { snprintf(viol[n_viol], 400, "%s", b); snprintf(viol_replay[n_viol], 120, "%s", rp); } n_viol++; if (replaying) printf("FAIL clause=%s\n", b); }

enum { A_MALLOC, A_CALLOC, A_REALLOC_NULL, A_POSIX_MEMALIGN, A_ALIGNED_ALLOC, A_MEMALIGN, A_VALLOC, A_PVALLOC, A_REALLOCARRAY_NULL, A_STRDUP, A_STRNDUP, A_REALPATH,
#ifndef OVR_C
  A_NEW, A_NEW_ARR, A_NEW_NOTHROW, A_NEW_ARR_NOTHROW, A_NEW_ALIGNED, A_NEW_ARR_ALIGNED, A_NEW_ALIGNED_NOTHROW, A_NEW_ARR_ALIGNED_NOTHROW, A_VECTOR, A_STRING,
#endif
  A_COUNT };
static const char* A_NAMES[] = { "malloc", "calloc", "realloc(NULL)", "posix_memalign", "aligned_alloc", "memalign", "valloc", "pvalloc", "reallocarray(NULL)", "strdup", "strndup", "realpath(.,NULL)",
  "operator new", "operator new[]", "new(nothrow)", "new[](nothrow)", "new(align_val_t)", "new[](align_val_t)", "new(align_val_t,nothrow)", "new[](align_val_t,nothrow)", "std::vector buffer", "std::string buffer" };
enum { F_FREE, F_CFREE, F_REALLOC_ZERO_THEN_FREE,
#ifndef OVR_C
  F_DELETE, F_DELETE_ARR, F_DELETE_SIZED, F_DELETE_ARR_SIZED, F_DELETE_ALIGNED, F_DELETE_ARR_ALIGNED, F_DELETE_SIZED_ALIGNED, F_DELETE_NOTHROW, F_DELETE_ARR_NOTHROW,
#endif
  F_COUNT };
static const char* F_NAMES[] = { "free", "cfree", "realloc-then-free", "operator delete", "operator delete[]", "delete(sized)", "delete[](sized)", "delete(align_val_t)", "delete[](align_val_t)", "delete(sized,align_val_t)", "delete(nothrow)", "delete[](nothrow)" };
enum { R_NONE, R_REALLOC_GROW, R_REALLOC_SHRINK, R_REALLOCARRAY, R_COUNT };

static char* g_src;   // long string for strdup/strndup
static void* do_alloc(int a, size_t n, size_t al, size_t* got_n, size_t* got_al) {
  void* p = NULL; *got_n = n; *got_al = (n >= 16 ? 16 : 8);
  switch (a) {
    case A_MALLOC: p = malloc(n); break;
    case A_CALLOC: p = calloc(n ? (n + 6) / 7 : 0, 7); *got_n = (n ? (n + 6) / 7 : 0) * 7; if (p) for (size_t i = 0; i < *got_n; i++) if (((unsigned char*)p)[i]) { violation("-", "calloc memory not zero at %zu", i); break; } break;
    case A_REALLOC_NULL: p = realloc(NULL, n); break;
    case A_POSIX_MEMALIGN: { if (al < sizeof(void*)) al = sizeof(void*); void* q = NULL; int rc = posix_memalign(&q, al, n); if (rc == 0) p = q; *got_al = al; break; }
    case A_ALIGNED_ALLOC: p = aligned_alloc(al, n); *got_al = al; break;
    case A_MEMALIGN: p = memalign(al, n); *got_al = al; break;
    case A_VALLOC: p = valloc(n); *got_al = 4096; break;
    case A_PVALLOC: p = pvalloc(n); *got_al = 4096; *got_n = (n + 4095) & ~(size_t)4095; break;
    case A_REALLOCARRAY_NULL: if (!p_reallocarray) return NULL; p = p_reallocarray(NULL, n ? (n + 2) / 3 : 0, 3); *got_n = (n ? (n + 2) / 3 : 0) * 3; break;
    case A_STRDUP: { size_t l = n > 60000 ? 60000 : n; p = strdup(g_src + (65000 - l)); *got_n = l + 1; break; }
    case A_STRNDUP: { size_t l = n > 60000 ? 60000 : n; p = strndup(g_src, l); *got_n = l + 1; break; }
    case A_REALPATH: p = realpath(".", NULL); *got_n = p ? strlen((char*)p) + 1 : 0; break;
#ifndef OVR_C
    case A_NEW: p = ::operator new(n); break;
    case A_NEW_ARR: p = ::operator new[](n); break;
    case A_NEW_NOTHROW: p = ::operator new(n, std::nothrow); break;
    case A_NEW_ARR_NOTHROW: p = ::operator new[](n, std::nothrow); break;
    case A_NEW_ALIGNED: p = ::operator new(n, std::align_val_t(al)); *got_al = al; break;
    case A_NEW_ARR_ALIGNED: p = ::operator new[](n, std::align_val_t(al)); *got_al = al; break;
    case A_NEW_ALIGNED_NOTHROW: p = ::operator new(n, std::align_val_t(al), std::nothrow); *got_al = al; break;
    case A_NEW_ARR_ALIGNED_NOTHROW: p = ::operator new[](n, std::align_val_t(al), std::nothrow); *got_al = al; break;
    case A_VECTOR: case A_STRING: break;   // handled separately
#endif
  }
  if (a == A_CALLOC || a == A_REALLOCARRAY_NULL || a == A_STRDUP || a == A_STRNDUP || a == A_REALPATH) *got_al = (*got_n >= 16 ? 16 : 8);   // minimum alignment follows the size actually requested
  return p;
}
static bool do_free(int f, void* p, size_t n, size_t al) {
  switch (f) {
    case F_FREE: free(p); return true;
    case F_CFREE: if (!p_cfree) return false; p_cfree(p); return true;
    case F_REALLOC_ZERO_THEN_FREE: { void* q = realloc(p, 1); if (!q) { free(p); return true; } free(q); return true; }
#ifndef OVR_C
    case F_DELETE: ::operator delete(p); return true;
    case F_DELETE_ARR: ::operator delete[](p); return true;
    case F_DELETE_SIZED: ::operator delete(p, n); return true;
    case F_DELETE_ARR_SIZED: ::operator delete[](p, n); return true;
    case F_DELETE_ALIGNED: if (((uintptr_t)p & (al - 1)) != 0) return false; ::operator delete(p, std::align_val_t(al)); return true;
    case F_DELETE_ARR_ALIGNED: if (((uintptr_t)p & (al - 1)) != 0) return false; ::operator delete[](p, std::align_val_t(al)); return true;
    case F_DELETE_SIZED_ALIGNED: if (((uintptr_t)p & (al - 1)) != 0) return false; ::operator delete(p, n, std::align_val_t(al)); return true;
    case F_DELETE_NOTHROW: ::operator delete(p, std::nothrow); return true;
    case F_DELETE_ARR_NOTHROW: ::operator delete[](p, std::nothrow); return true;
#endif
  }
  return false;
}
static int family_a(int a) { return a <= A_REALPATH ? 0 : 1; }
static int family_f(int f) { return f <= F_REALLOC_ZERO_THEN_FREE ? 0 : 1; }

// a crash names the tuple that was being checked, so that the driver can hand out a replay that reproduces it
static char g_cur_rp[160] = "errors";
static char g_rerun[64] = "errors";   // a crash can depend on the allocations made before: the replay re-runs the whole deterministic sequence
static void crash_handler(int sig) { char buf[300]; int k = snprintf(buf, sizeof buf, "\nCRASH-AT signal %d while checking '%s' in: %s\n", sig, g_cur_rp, g_rerun); ssize_t w = write(2, buf, (size_t)k); (void)w; _exit(128 + sig); }
static long n_high;
static void check_tuple(int a, int r, int f, size_t n, size_t al) {
  char rp[120]; snprintf(rp, sizeof rp, "tuple %d %d %d %zu %zu", a, r, f, n, al); n_eval++; snprintf(g_cur_rp, sizeof g_cur_rp, "%s", rp);
  if (a < 0 || a >= A_COUNT || f < 0 || f >= F_COUNT) return;
  if ((al & (al - 1)) != 0 || al == 0) al = 16;
#ifndef OVR_C
  if (a == A_VECTOR) { std::vector<uint64_t> v; for (size_t i = 0; i < n / 8 + 1; i++) v.push_back(i * 0x9E3779B97F4A7C15ull); if (!mi_in_region(v.data())) violation(rp, "std::vector storage %p is not in the allocator's heap", (void*)v.data()); for (size_t i = 0; i < v.size(); i++) if (v[i] != i * 0x9E3779B97F4A7C15ull) { violation(rp, "std::vector contents changed at %zu", i); break; } return; }
  if (a == A_STRING) { std::string s; for (size_t i = 0; i < n + 32; i++) s.push_back((char)('a' + i % 26)); if (!mi_in_region(s.data())) violation(rp, "std::string storage %p is not in the allocator's heap", (void*)s.data()); return; }
#endif
  size_t gn = 0, ga = 0; void* p = do_alloc(a, n, al, &gn, &ga);
  if (!p) { if (n <= (64u << 20) && !(a == A_REALLOCARRAY_NULL && !p_reallocarray)) violation(rp, "%s(%zu, align %zu) returned NULL", A_NAMES[a], n, al); return; }
  // (segments mapped straight from the OS for alignments above one segment get no address hint and land above the 48 TiB the segment map covers:
  //  mi_is_in_heap_region is documented not to see them -- the usable-size agreement below still identifies the allocator)
  bool high = (uintptr_t)p >= ((uintptr_t)48 << 40); if (high) n_high++;
  if (!high && !mi_in_region(p)) { violation(rp, "%s(%zu) returned %p which mi_is_in_heap_region rejects: not served by the override", A_NAMES[a], n, p); return; }
  if (high && mi_usable(p) < gn) { violation(rp, "%s(%zu, align %zu) returned %p which the allocator does not know (usable size %zu)", A_NAMES[a], n, al, p, mi_usable(p)); return; }
  size_t us = malloc_usable_size(p), mu = mi_usable(p);
  if (us != mu) violation(rp, "malloc_usable_size(%p)=%zu but mi_usable_size=%zu (block from %s)", p, us, mu, A_NAMES[a]);
  if (mu < gn) violation(rp, "usable size %zu < requested %zu (%s)", mu, gn, A_NAMES[a]);
  if (((uintptr_t)p & (ga - 1)) != 0) violation(rp, "%s(%zu, align %zu) returned %p which is not aligned to %zu", A_NAMES[a], n, al, p, ga);
  unsigned char* b = (unsigned char*)p; bool is_str = (a == A_STRDUP || a == A_STRNDUP || a == A_REALPATH);
  if (!is_str) for (size_t i = 0; i < gn; i++) b[i] = (unsigned char)(i * 31 + 7);
  size_t cur = gn; bool moved = false;
  if (r == R_REALLOC_GROW || r == R_REALLOC_SHRINK || (r == R_REALLOCARRAY && p_reallocarray)) {
    size_t n2 = (r == R_REALLOC_SHRINK ? gn / 3 + 1 : gn * 2 + 100); void* q = (r == R_REALLOCARRAY ? p_reallocarray(p, (n2 + 3) / 4, 4) : realloc(p, n2)); if (r == R_REALLOCARRAY) n2 = ((n2 + 3) / 4) * 4;
    if (!q) { violation(rp, "realloc(%p,%zu) of a block from %s returned NULL", p, n2, A_NAMES[a]); free(p); return; }
    if ((uintptr_t)q < ((uintptr_t)48 << 40) && !mi_in_region(q)) violation(rp, "realloc result %p not in the allocator's heap", q);
    size_t keep = gn < n2 ? gn : n2; b = (unsigned char*)q; if (!is_str) for (size_t i = 0; i < keep; i++) if (b[i] != (unsigned char)(i * 31 + 7)) { violation(rp, "realloc of a block from %s lost byte %zu", A_NAMES[a], i); break; }
    if (malloc_usable_size(q) < n2) violation(rp, "usable size after realloc %zu < %zu", malloc_usable_size(q), n2);
    if (q != p) moved = true;
    p = q; cur = n2; ga = (n2 >= 16 ? 16 : 8);
  }
  if (!do_free(f, p, cur, ga)) { free(p); return; }
  if (family_a(a) != family_f(f) || moved) n_nontrivial++;
  // a released block must be reusable: the next allocations of that size must not fail
  void* again = malloc(cur ? cur : 1); if (!again) violation(rp, "malloc(%zu) fails after %s released a block from %s", cur, F_NAMES[f], A_NAMES[a]); free(again);
}

static void check_errors(void) {
  n_eval++;
  void* out = (void*)0x5e5e; int rc = posix_memalign(&out, 3, 100); if (rc != EINVAL || out != (void*)0x5e5e) violation("errors", "posix_memalign(align 3) returned %d / modified the out-parameter", rc);
  rc = posix_memalign(&out, 0, 100); if (rc != EINVAL || out != (void*)0x5e5e) violation("errors", "posix_memalign(align 0) returned %d / modified the out-parameter", rc);
  rc = posix_memalign(&out, 64, SIZE_MAX - 100); if (rc != ENOMEM || out != (void*)0x5e5e) violation("errors", "posix_memalign(huge size) returned %d / modified the out-parameter", rc);
  if (p_reallocarray) { errno = 0; void* q = p_reallocarray(NULL, SIZE_MAX / 2 + 2, 2); if (q != NULL || errno != ENOMEM) violation("errors", "reallocarray overflow returned %p errno %d", q, errno); }
  if (p_reallocarray) { errno = EBADF; /* stale code of an earlier unrelated failure */ void* q = p_reallocarray(NULL, SIZE_MAX / 2 + 2, 2); if (q != NULL || errno != ENOMEM) violation("errors", "reallocarray overflow with a stale errno returned %p errno %d (ENOMEM expected)", q, errno);
    void* live = malloc(100); errno = ENOENT; q = p_reallocarray(live, SIZE_MAX / 3, 4); if (q != NULL || errno != ENOMEM) violation("errors", "reallocarray overflow on a live block with a stale errno returned %p errno %d", q, errno); free(live); }
  { void* q = calloc(SIZE_MAX / 2 + 2, 2); if (q != NULL) violation("errors", "calloc overflow returned %p", q); }
  { void* q = malloc(SIZE_MAX - 4096); if (q != NULL) violation("errors", "malloc(SIZE_MAX-4096) returned %p", q); }
#ifndef OVR_C
  // every nothrow form must return NULL (not throw, not abort) for a size that cannot be satisfied
  { void* q = ::operator new(SIZE_MAX / 2, std::nothrow); if (q != NULL) violation("errors", "new(nothrow) of an impossible size returned %p", q); }
  { void* q = ::operator new[](SIZE_MAX / 2 + 7, std::nothrow); if (q != NULL) violation("errors", "new[](nothrow) of an impossible size returned %p", q); }
  { void* q = ::operator new(SIZE_MAX - 4096, std::align_val_t(64), std::nothrow); if (q != NULL) violation("errors", "aligned new(nothrow) of an impossible size returned %p", q); }
  { void* q = ::operator new[](SIZE_MAX - 64, std::align_val_t(64), std::nothrow); if (q != NULL) violation("errors", "aligned new[](nothrow) of an impossible size returned %p", q); }
  { void* q = ::operator new((size_t)1 << 60, std::nothrow); if (q != NULL) violation("errors", "new(nothrow) of 2^60 bytes returned %p", q); }
  { void* q = ::operator new[]((size_t)1 << 60, std::nothrow); if (q != NULL) violation("errors", "new[](nothrow) of 2^60 bytes returned %p", q); }
#endif
  { void* q = malloc(0); if (q == NULL || !mi_in_region(q)) violation("errors", "malloc(0) returned %p", q); free(q); free(NULL); }
  n_nontrivial++;
}

static void run_all(int thorough) {
  check_errors();
  // the full A x F matrix for representatives of every size class kind, with and without a resize in between
  static const size_t reps[] = { 0, 1, 8, 24, 100, 1000, 4096, 9000, 70000, 600000, 5000000, 40000000 }; static const size_t aligns[] = { 8, 16, 64, 4096, 65536, 1048576 };
  for (size_t ri = 0; ri < sizeof reps / sizeof *reps; ri++) for (int a = 0; a < A_COUNT; a++) for (int f = 0; f < F_COUNT; f++) { size_t al = aligns[(ri + (size_t)a + (size_t)f) % 6]; check_tuple(a, (int)((ri + (size_t)a) % R_COUNT), f, reps[ri], al); }
  // alignments of two and four segments (64/128 MiB): the block lives in a segment of its own that is mapped straight from the OS
  { static const int al_fns[] = { A_POSIX_MEMALIGN, A_ALIGNED_ALLOC, A_MEMALIGN,
#ifndef OVR_C
      A_NEW_ALIGNED, A_NEW_ARR_ALIGNED_NOTHROW,
#endif
    };
    static const size_t big_al[] = { (size_t)64 << 20, (size_t)128 << 20 }; static const size_t ns[] = { 1, 100, 70000, 5000000 };
    for (size_t i = 0; i < sizeof al_fns / sizeof *al_fns; i++) for (int f = 0; f < F_COUNT; f++) check_tuple(al_fns[i], (int)((i + (size_t)f) % R_COUNT), f, ns[(i + (size_t)f) % 4], big_al[(i + (size_t)f) % 2]); }
  long N = thorough ? 400000 : 12000;
  for (long i = 0; i < N; i++) { size_t n; unsigned k = (unsigned)(rnd() % 8); n = (k < 4 ? rnd() % 2000 : k < 6 ? rnd() % 70000 : k == 6 ? rnd() % 3000000 : rnd() % 40000000); if (rnd() % 50 == 0) n = ((size_t)1 << (rnd() % 26)) + (size_t)(rnd() % 3) - 1;
    check_tuple((int)(rnd() % A_COUNT), (int)(rnd() % R_COUNT), (int)(rnd() % F_COUNT), n, (size_t)1 << (3 + rnd() % 18)); }
}

int main(int argc, char** argv) {
  int thorough = 0; uint64_t seed = 1; const char* replay = NULL;
  for (int i = 1; i < argc; i++) { if (!strcmp(argv[i], "--tier") && i + 1 < argc) thorough = !strcmp(argv[++i], "thorough"); else if (!strcmp(argv[i], "--seed") && i + 1 < argc) seed = strtoull(argv[++i], NULL, 0); else if (!strcmp(argv[i], "--replay") && i + 1 < argc) replay = argv[++i]; }
  rng_s = seed * 0x9E3779B97F4A7C15ull + 99;
  signal(SIGSEGV, crash_handler); signal(SIGBUS, crash_handler); signal(SIGFPE, crash_handler); signal(SIGABRT, crash_handler); signal(SIGILL, crash_handler);
  if (&mi_is_in_heap_region != NULL && &mi_usable_size != NULL) { mi_in_region = &in_region_static; mi_usable = (usable_fn)&mi_usable_size; }
  else { mi_in_region = (in_region_fn)dlsym(RTLD_DEFAULT, "mi_is_in_heap_region"); mi_usable = (usable_fn)dlsym(RTLD_DEFAULT, "mi_usable_size"); }
  p_cfree = (cfree_fn)dlsym(RTLD_DEFAULT, "cfree"); p_reallocarray = (reallocarray_fn)dlsym(RTLD_DEFAULT, "reallocarray");
  if ((!mi_in_region || !mi_usable) && replay) { printf("FAIL clause=override-not-active: the allocator's symbols are not present in the process\n"); return 1; }
  if (!mi_in_region || !mi_usable) { printf("{\"evaluations\":1,\"distinct_nontrivial\":0,\"violations\":1,\"classes\":{},\"samples\":[],\"violation_list\":[{\"msg\":\"the allocator's symbols (mi_is_in_heap_region, mi_usable_size) are not present in the process: the override is not active\",\"replay\":\"errors\"}]}\n"); return 0; }
  g_src = (char*)malloc(65001); for (int i = 0; i < 65000; i++) g_src[i] = (char)('a' + i % 26); g_src[65000] = 0;
  if (replay) { replaying = 1; FILE* f = fopen(replay, "r"); if (!f) return 2; char line[200]; while (fgets(line, sizeof line, f)) { int a, r, fr; size_t n, al; if (sscanf(line, "tuple %d %d %d %zu %zu", &a, &r, &fr, &n, &al) == 5) check_tuple(a, r, fr, n, al); else if (!strncmp(line, "errors", 6)) check_errors(); else { int th = 0; unsigned long long sd = 1; if (sscanf(line, "rerun %d %llu", &th, &sd) == 2) { rng_s = (uint64_t)sd * 0x9E3779B97F4A7C15ull + 99; run_all(th); } } } fclose(f); if (!n_viol) printf("PASS\n"); return n_viol ? 1 : 0; }
  snprintf(g_rerun, sizeof g_rerun, "rerun %d %llu", thorough, (unsigned long long)seed);
  run_all(thorough);
  printf("{\"evaluations\":%ld,\"distinct_nontrivial\":%ld,\"violations\":%ld,\"classes\":{\"alloc_entry_points\":%d,\"release_entry_points\":%d},\"samples\":[\"tuple a=%s resize=realloc f=%s n=70000 (full A x F matrix for 12 size representatives, then generated tuples)\"],\"violation_list\":[", n_eval, n_nontrivial, n_viol, (int)A_COUNT, (int)F_COUNT, A_NAMES[A_COUNT - 1 > 5 ? 5 : 0], F_NAMES[F_COUNT - 1]);
  for (int i = 0; i < n_viol && i < 8; i++) { if (i) putchar(','); printf("{\"msg\":\""); for (char* c = viol[i]; *c; c++) { if (*c == '"' || *c == '\\') putchar('\\'); putchar(*c); } printf("\",\"replay\":\"%s\"}", viol_replay[i]); }
  printf("]}\n"); fflush(stdout);
  return 0;
}
