// IR executor: basic allocation / release / resize ops.
#pragma once
#include "hist_model.hpp"

static const char* STRSRC = nullptr;   // a long non-zero string for strdup/strndup
static unsigned short WSRC[35000];         // a long non-zero 16-bit string for wcsdup
static const char* const RPATHS[3] = { "/", "/usr/include", "/usr/lib/../include" };
static void init_strsrc() { for (size_t i = 0; i < 34999; i++) WSRC[i] = (unsigned short)(0x100 + (i * 31 + i / 7) % 60000); WSRC[34999] = 0; static char buf[70000]; for (size_t i = 0; i < sizeof buf - 1; i++) buf[i] = (char)('a' + (i * 7 + i / 13) % 26); buf[sizeof buf - 1] = 0; STRSRC = buf; }

// Allocation dispatch. `valid` = false when the op does not denote a call we can make (unknown fn, bad heap, precondition).
uint8_t* Exec::call_alloc(const std::string& f0, int h, size_t n, size_t c, size_t a, size_t o, bool& zeroing, size_t& req, size_t& eff_a, size_t& eff_o, bool& valid) {
  mi_heap_t* hp = nullptr; valid = true; zeroing = false; req = n; eff_a = 1; eff_o = 0;
  if (h > 0) { hp = heap_of(h); if (!hp) { valid = false; return nullptr; } }
  // the throwing operator-new forms abort() by design in the C build when memory is refused and no new-handler is installed
  if ((allow_null || m.heaps[h > 0 ? h : m.def].arena >= 0) && (f0 == "new" || f0 == "new_n" || f0 == "new_aligned")) { count(C_EXCLUDED); valid = false; return nullptr; }   // (an arena-bound heap may legitimately be full)
  const std::string& f = f0;
  void* p = nullptr;
  auto tot = [&](size_t cc, size_t nn) { return cc * nn; };   // generator keeps products small in non-edge ops
  if (f == "malloc")            p = hp ? mi_heap_malloc(hp, n) : mi_malloc(n);
  else if (f == "zalloc")       { zeroing = true; p = hp ? mi_heap_zalloc(hp, n) : mi_zalloc(n); }
  else if (f == "calloc")       { zeroing = true; req = tot(c, n); p = hp ? mi_heap_calloc(hp, c, n) : mi_calloc(c, n); }
  else if (f == "mallocn")      { req = tot(c, n); p = hp ? mi_heap_mallocn(hp, c, n) : mi_mallocn(c, n); }
  else if (f == "malloc_small") { if (n > SMALL_SIZE_MAX) { valid = false; return nullptr; } p = hp ? mi_heap_malloc_small(hp, n) : mi_malloc_small(n); }
  else if (f == "zalloc_small") { if (n > SMALL_SIZE_MAX || hp) { valid = false; return nullptr; } zeroing = true; p = mi_zalloc_small(n); }
  else if (f == "malloc_aligned")     { eff_a = a; p = hp ? mi_heap_malloc_aligned(hp, n, a) : mi_malloc_aligned(n, a); }
  else if (f == "malloc_aligned_at")  { eff_a = a; eff_o = o; p = hp ? mi_heap_malloc_aligned_at(hp, n, a, o) : mi_malloc_aligned_at(n, a, o); }
  else if (f == "zalloc_aligned")     { zeroing = true; eff_a = a; p = hp ? mi_heap_zalloc_aligned(hp, n, a) : mi_zalloc_aligned(n, a); }
  else if (f == "zalloc_aligned_at")  { zeroing = true; eff_a = a; eff_o = o; p = hp ? mi_heap_zalloc_aligned_at(hp, n, a, o) : mi_zalloc_aligned_at(n, a, o); }
  else if (f == "calloc_aligned")     { zeroing = true; eff_a = a; req = tot(c, n); p = hp ? mi_heap_calloc_aligned(hp, c, n, a) : mi_calloc_aligned(c, n, a); }
  else if (f == "calloc_aligned_at")  { zeroing = true; eff_a = a; eff_o = o; req = tot(c, n); p = hp ? mi_heap_calloc_aligned_at(hp, c, n, a, o) : mi_calloc_aligned_at(c, n, a, o); }
  else if (f == "posix_memalign") { if (hp || a < sizeof(void*)) { valid = false; return nullptr; } eff_a = a; void* q = (void*)0x5a5a; int rc = mi_posix_memalign(&q, a, n); if (rc != 0) { if (!allow_null && !(rc == ENOMEM && m.heaps[m.def].arena >= 0)) fail_now("posix_memalign-rc", "op#%ld mi_posix_memalign(a=%zu,n=%zu) returned %d", opi, a, n, rc); q = nullptr; } p = q; }
  else if (f == "memalign")      { if (hp) { valid = false; return nullptr; } eff_a = a; p = mi_memalign(a, n); }
  else if (f == "aligned_alloc") { if (hp) { valid = false; return nullptr; } eff_a = a; p = mi_aligned_alloc(a, n); }
  else if (f == "valloc")        { if (hp) { valid = false; return nullptr; } eff_a = 4096; p = mi_valloc(n); }
  else if (f == "pvalloc")       { if (hp) { valid = false; return nullptr; } eff_a = 4096; req = (n + 4095) & ~(size_t)4095; p = mi_pvalloc(n); }
  else if (f == "strdup")        { if (n >= 69999) n = 69998; const char* src = STRSRC + (69999 - n); req = n + 1; p = hp ? mi_heap_strdup(hp, src) : mi_strdup(src);
                                   if (p && memcmp(p, src, n + 1) != 0) fail_now("strdup-contents", "op#%ld strdup(len=%zu) copy differs", opi, n); }
  else if (f == "strndup")       { if (n >= 60000) n = 59999; req = n + 1; p = hp ? mi_heap_strndup(hp, STRSRC, n) : mi_strndup(STRSRC, n);
                                   if (p && (memcmp(p, STRSRC, n) != 0 || ((char*)p)[n] != 0)) fail_now("strndup-contents", "op#%ld strndup(n=%zu) copy differs", opi, n); }
  else if (f == "mbsdup")        { if (hp) { valid = false; return nullptr; } if (n >= 69999) n = 69998; const char* src = STRSRC + (69999 - n); req = n + 1; p = mi_mbsdup((const unsigned char*)src);
                                   if (p && memcmp(p, src, n + 1) != 0) fail_now("strdup-contents", "op#%ld mbsdup(len=%zu) copy differs", opi, n); }
  else if (f == "wcsdup")        { if (hp) { valid = false; return nullptr; } size_t k = n / 2; if (k >= 34999) k = 34998; const unsigned short* src = WSRC + (34999 - k); req = (k + 1) * 2; p = mi_wcsdup(src);
                                   if (p && memcmp(p, src, req) != 0) fail_now("strdup-contents", "op#%ld wcsdup(len=%zu) copy differs", opi, k); }
  else if (f == "dupenv")        { if (hp) { valid = false; return nullptr; } if (n > 8000) n = 8000; const char* src = STRSRC + (69999 - n); setenv("VF_DUPENV", src, 1); char* q = (char*)0x5a5a; size_t sz = 12345; int rc = mi_dupenv_s(&q, &sz, "VF_DUPENV"); req = n + 1;
                                   if (rc != 0) { if (!allow_null && m.heaps[m.def].arena < 0) fail_now("dupenv-rc", "op#%ld mi_dupenv_s returned %d", opi, rc); q = nullptr; }
                                   else if (q == nullptr || q == (char*)0x5a5a || sz != n || memcmp(q, src, n + 1) != 0) fail_now("strdup-contents", "op#%ld mi_dupenv_s(len=%zu): buf=%p size=%zu or copy differs", opi, n, (void*)q, sz);
                                   p = q; }
  else if (f == "realpath")      { const char* path = RPATHS[n % 3]; char want[4200]; if (!realpath(path, want)) { valid = false; return nullptr; } req = strlen(want) + 1; p = hp ? mi_heap_realpath(hp, path, nullptr) : mi_realpath(path, nullptr);
                                   if (p && memcmp(p, want, req) != 0) fail_now("strdup-contents", "op#%ld realpath(%s) copy differs", opi, path); }
  else if (f == "new_nothrow")   { if (hp) { valid = false; return nullptr; } p = mi_new_nothrow(n); }
  else if (f == "new_aligned_nothrow") { if (hp) { valid = false; return nullptr; } eff_a = a; p = mi_new_aligned_nothrow(n, a); }
  else if (f == "new")           { if (n > MiB) { valid = false; return nullptr; } p = hp ? mi_heap_alloc_new(hp, n) : mi_new(n); }
  else if (f == "new_n")         { if (tot(c, n) > MiB) { valid = false; return nullptr; } req = tot(c, n); p = hp ? mi_heap_alloc_new_n(hp, c, n) : mi_new_n(c, n); }
  else if (f == "new_aligned")   { if (hp || n > MiB || a > MiB) { valid = false; return nullptr; } eff_a = a; p = mi_new_aligned(n, a); }
  else if (f == "realloc_null")  { p = hp ? mi_heap_realloc(hp, nullptr, n) : mi_realloc(nullptr, n); }
  else if (f == "rezalloc_null") { zeroing = true; p = hp ? mi_heap_rezalloc(hp, nullptr, n) : mi_rezalloc(nullptr, n); }
  else if (f == "reallocarray_null") { if (hp) { valid = false; return nullptr; } req = tot(c, n); p = mi_reallocarray(nullptr, c, n); }
  else if (f == "realloc_aligned_null") { eff_a = a; p = hp ? mi_heap_realloc_aligned(hp, nullptr, n, a) : mi_realloc_aligned(nullptr, n, a); }
  else { valid = false; return nullptr; }
  return (uint8_t*)launder(p);
}

void Exec::op_alloc(const Op& op) {
  int s = (int)op.num("s"); if (s < 0 || s >= NSLOTS || m.slots[s].live) return;
  std::string f = op.str("f", "malloc"); int h = (int)op.num("h", 0);
  size_t n = op.num("n"), c = op.num("c", 1), a = op.num("a", 16), o = op.num("o", 0);
  if (a == 0 || (a & (a - 1)) != 0) return;                   // malformed alignments belong to `edge`
#if defined(VF_DEBUG_BUILD)
  // guard (debug builds only): MI_DEBUG>0 rejects pointers that are not word aligned ("invalid (unaligned) pointer") and an
  // offset that is not a multiple of 8 necessarily yields such a pointer; release/secure builds accept them and are checked.
  if ((o & 7) != 0) { count(C_EXCLUDED); return; }
#endif
  bool zeroing, valid; size_t req, ea, eo;
  uint8_t* p = call_alloc(f, h, n, c, a, o, zeroing, req, ea, eo, valid);
  if (!valid) return;
  count(C_ALLOCS);
  if (p == nullptr) {
    count(C_NULLS);
    if (m.heaps[h > 0 ? h : m.def].arena >= 0) flag(F_ARENA_FULL_NULL);
    if (ea > BLOCK_ALIGNMENT_MAX && eo != 0) return;          // documented: no offset with very large alignment
    if (!allow_null && req <= MUST_SUCCEED_MAX && ea <= 128*MiB && m.heaps[h > 0 ? h : m.def].arena < 0) fail_now("null", "op#%ld %s(n=%zu,a=%zu,o=%zu) returned NULL for a well-formed request", opi, f.c_str(), req, ea, eo);
    return;
  }
  int home = (h > 0 ? h : m.def);
  check_alignment(p, req, ea, eo, f.c_str());
  model_add(s, p, req, ea, eo, home, zeroing, f.c_str()); m.slots[s].tag = m.heaps[home].tag;
  if (ea > 16) flag(F_OVERALIGNED); if (eo != 0) flag(F_OFFSET);
  if (zeroing) { if (was_dirty(p)) flag(F_ZERO_ON_DIRTY); check_zeroed(p, 0, req, f.c_str()); }
  model_fill(s, op.num("nt", 0) != 0);
  verify_neighbours((uintptr_t)p);
}

void Exec::free_slot(int s, const std::string& f0) {
  Blk& b = m.slots[s]; if (!b.live) return;
  if (b.stranded) { count(C_EXCLUDED); return; }   // known finding F5: a local free of such a block crashes
  if (b.deferred && !in_deferred_cb) return;        // this block belongs to the deferred-free callback now
  if (b.foreign) flag(F_FOREIGN_FREED);
  verify_blk(s, "before-free");
  uint8_t* p = b.p; size_t n = b.n, a = (b.o == 0 ? b.a : 1); std::string f = f0;
  // dirty the whole usable area so zeroing entry points have something to clear
  if (!b.zmode) { /* already full of pattern */ } else { pat_fill(p, b.u, b.key); }
  model_remove(s, true);
  if (f == "free_size") mi_free_size(p, n);
  else if (f == "free_size_aligned") mi_free_size_aligned(p, n, a);
  else if (f == "free_aligned") mi_free_aligned(p, a);
  else if (f == "cfree") {
    // mi_cfree only frees what mi_is_in_heap_region accepts; OS memory above MI_SEGMENT_MAP_MAX_ADDRESS (48 TiB: alignments > one segment
    // get no address hint) is documented as outside the segment map's range -> guard, not an oracle
    if (mi_is_in_heap_region(p)) mi_cfree(p);
    else { if ((uintptr_t)p < ((uintptr_t)48 << 40) && !ever_faulted) fail_now("cfree-region", "op#%ld mi_is_in_heap_region(%p) is false for a live block (n=%zu a=%zu)", opi, p, n, b.a); count(C_EXCLUDED); mi_free(p); }
  }
  else mi_free(p);
  count(C_FREES);
  verify_neighbours((uintptr_t)p);
}
void Exec::op_free(const Op& op) { int s = (int)op.num("s"); if (s < 0 || s >= NSLOTS) return; free_slot(s, op.str("f", "free")); }

void Exec::op_expand(const Op& op) {
  int s = (int)op.num("s"); if (s < 0 || s >= NSLOTS || !m.slots[s].live) return; Blk& b = m.slots[s]; size_t n2 = op.num("n");
  if (b.deferred) return;
  void* q = mi_expand(b.p, n2); flag(F_EXPAND);
  if (q != nullptr && q != b.p) fail_now("expand-moved", "op#%ld mi_expand(%p,%zu) returned a different pointer %p", opi, b.p, n2, q);
#if !defined(VF_PADDING)
  if ((q != nullptr) != (n2 <= b.u)) fail_now("expand-result", "op#%ld mi_expand(%p,%zu) usable=%zu returned %p", opi, b.p, n2, b.u, q);
#endif
  if (mi_usable_size(b.p) != b.u) fail_now("expand-usable", "op#%ld usable size changed by mi_expand: %zu -> %zu", opi, b.u, mi_usable_size(b.p));
  verify_blk(s, "after-expand");
  if (q != nullptr && !b.zmode) { b.n = n2; b.pristine = false; }   // requested size now n2 (contents pattern still covers usable)
}

void Exec::op_realloc(const Op& op) {
  int s = (int)op.num("s"); if (s < 0 || s >= NSLOTS) return; Blk& b = m.slots[s]; if (!b.live) return;
  if (b.stranded) { count(C_EXCLUDED); return; }
  if (b.deferred) return;   // (the callback may run inside this very call and free the block)
  std::string f = op.str("f", "realloc"); int h = (int)op.num("h", 0); mi_heap_t* hp = nullptr;
  if (h > 0) { hp = heap_of(h); if (!hp) return; }
  size_t n = op.num("n"), c = op.num("c", 1), a = op.num("a", 0), o = op.num("o", 0);
  bool use_blk_align = op.num("same", 0) != 0;   // re-allocate with the block's own alignment/offset
  if (use_blk_align) { a = b.a; o = b.o; }
  if (a == 0) a = 16; if ((a & (a - 1)) != 0) return;
#if defined(VF_DEBUG_BUILD)
  if ((o & 7) != 0) { count(C_EXCLUDED); return; }
#endif
  verify_blk(s, "before-realloc");
  uint8_t* p = b.p; size_t n_old = b.n, u_old = b.u; uint32_t okey = b.key; size_t owritten = b.written; bool ozmode = b.zmode;
  exempt_lo = (uintptr_t)p; exempt_hi = exempt_lo + (u_old ? u_old : 1);
  size_t req = n; bool zeroing = false, frees_on_fail = false; size_t ea = 1, eo = 0; void* q = nullptr; bool aligned_fn = false;
  if (f == "realloc")        q = hp ? mi_heap_realloc(hp, p, n) : mi_realloc(p, n);
  else if (f == "reallocn")  { req = c * n; q = hp ? mi_heap_reallocn(hp, p, c, n) : mi_reallocn(p, c, n); }
  else if (f == "reallocf")  { frees_on_fail = true; q = hp ? mi_heap_reallocf(hp, p, n) : mi_reallocf(p, n); }
  else if (f == "rezalloc")  { zeroing = true; q = hp ? mi_heap_rezalloc(hp, p, n) : mi_rezalloc(p, n); }
  else if (f == "recalloc")  { zeroing = true; req = c * n; q = hp ? mi_heap_recalloc(hp, p, c, n) : mi_recalloc(p, c, n); }
  else if (f == "reallocarray") { if (hp) return; req = c * n; q = mi_reallocarray(p, c, n); }
  else if (f == "reallocarr")   { if (hp) return; req = c * n; void* pp = p; int rc = mi_reallocarr(&pp, c, n); q = (rc == 0 ? pp : nullptr); if (rc != 0 && pp != p) fail_now("reallocarr-store", "op#%ld mi_reallocarr failed (%d) but stored %p", opi, rc, pp); }
  else if (f == "new_realloc")  { if (hp || n > MiB || allow_null || m.heaps[m.def].arena >= 0) return; q = mi_new_realloc(p, n); }
  else if (f == "new_reallocn") { if (hp || c * n > MiB || allow_null || m.heaps[m.def].arena >= 0) return; req = c * n; q = mi_new_reallocn(p, c, n); }
  else if (f == "realloc_aligned")     { aligned_fn = true; ea = a; q = hp ? mi_heap_realloc_aligned(hp, p, n, a) : mi_realloc_aligned(p, n, a); }
  else if (f == "realloc_aligned_at")  { aligned_fn = true; ea = a; eo = o; q = hp ? mi_heap_realloc_aligned_at(hp, p, n, a, o) : mi_realloc_aligned_at(p, n, a, o); }
  else if (f == "rezalloc_aligned")    { aligned_fn = true; zeroing = true; ea = a; q = hp ? mi_heap_rezalloc_aligned(hp, p, n, a) : mi_rezalloc_aligned(p, n, a); }
  else if (f == "rezalloc_aligned_at") { aligned_fn = true; zeroing = true; ea = a; eo = o; q = hp ? mi_heap_rezalloc_aligned_at(hp, p, n, a, o) : mi_rezalloc_aligned_at(p, n, a, o); }
  else if (f == "recalloc_aligned")    { aligned_fn = true; zeroing = true; ea = a; req = c * n; q = hp ? mi_heap_recalloc_aligned(hp, p, c, n, a) : mi_recalloc_aligned(p, c, n, a); }
  else if (f == "recalloc_aligned_at") { aligned_fn = true; zeroing = true; ea = a; eo = o; req = c * n; q = hp ? mi_heap_recalloc_aligned_at(hp, p, c, n, a, o) : mi_recalloc_aligned_at(p, c, n, a, o); }
  else if (f == "aligned_recalloc")    { if (hp) return; aligned_fn = true; zeroing = true; ea = a; req = c * n; q = mi_aligned_recalloc(p, c, n, a); }
  else if (f == "aligned_offset_recalloc") { if (hp) return; aligned_fn = true; zeroing = true; ea = a; eo = o; req = c * n; q = mi_aligned_offset_recalloc(p, c, n, a, o); }
  else return;
  q = launder(q); count(C_REALLOCS); exempt_lo = exempt_hi = 0;
  if (q == nullptr) {
    count(C_NULLS);
    bool excused = allow_null || m.heaps[h > 0 ? h : m.def].arena >= 0 || req > MUST_SUCCEED_MAX || (ea > BLOCK_ALIGNMENT_MAX && eo != 0) || ea > 128*MiB;
    if (!excused) fail_now("null", "op#%ld %s(%p, n=%zu, a=%zu) returned NULL for a well-formed request", opi, f.c_str(), p, req, ea);
    if (frees_on_fail) { model_remove(s, true); return; }
    verify_blk(s, "after-failed-realloc");       // old block untouched
    if (mi_usable_size(p) != u_old) fail_now("failed-realloc-usable", "op#%ld usable size of old block changed after failed %s", opi, f.c_str());
    return;
  }
  uint8_t* qq = (uint8_t*)q; size_t u2 = mi_usable_size(qq);
  if (u2 < req) fail_now("usable", "op#%ld %s: usable %zu < new size %zu", opi, f.c_str(), u2, req);
  size_t keep = n_old < req ? n_old : req; if (keep > owritten) keep = owritten;
  if (qq == p) {
    flag(F_REALLOC_INPLACE); if (ozmode && zeroing) flag(F_ZCHAIN_INPLACE);
    if (u2 != u_old) fail_now("inplace-usable", "op#%ld %s kept the pointer but usable size changed %zu -> %zu", opi, f.c_str(), u_old, u2);
  } else {
    flag(F_REALLOC_MOVED); if (ozmode && zeroing) flag(F_ZCHAIN_MOVED);
    // old block is released: take it out of the model first, then the new block must be disjoint from all live ones
    m.live.erase((uintptr_t)p); m.nlive--; b.live = false; m.freed_addrs.insert((uintptr_t)p); m.dirty[(uintptr_t)p & ~(uintptr_t)0xFFFF] = 1;
    check_disjoint(qq, u2, s, f.c_str()); check_arena_rules(qq, u2, (h > 0 ? h : m.def), f.c_str());
    if (m.freed_addrs.count((uintptr_t)qq)) flag(F_REUSE);
    m.live[(uintptr_t)qq] = s; m.nlive++; b.live = true; b.p = qq; b.u = u2;
    b.home = (h > 0 ? h : m.def); b.tag = m.heaps[b.home].tag;
  }
  // contents: first min(old requested, new) bytes
  { size_t bad = pat_check(qq, owritten, okey, keep); count(C_BYTES_VERIFIED, keep);
    if (bad != SIZE_MAX)
      fail_now("realloc-contents", "op#%ld %s(%p,%zu)->%p: byte %zu of the preserved prefix (%zu) is 0x%02x expected 0x%02x", opi, f.c_str(), p, req, qq, bad, keep, qq[bad], pat_byte(okey, bad)); }
  // alignment after re-allocation: claimed only when re-allocating with the block's own alignment (and offset)
  bool at_fn = (f.find("_at") != std::string::npos || f == "aligned_offset_recalloc");
  bool align_known = false;
  if (check_align && aligned_fn && use_blk_align && ea > 1 && (at_fn || b.o == 0)) {
    align_known = true; if (!at_fn) eo = 0;
    if ((((uintptr_t)qq + eo) & (ea - 1)) != 0) fail_now("realloc-alignment", "op#%ld %s(%p,n=%zu,a=%zu,o=%zu) -> %p: (q+o) not aligned although re-allocated with the block's own alignment", opi, f.c_str(), p, req, ea, eo, qq);
  }
  // zero growth: bytes between previous and new requested size, for zero-initialised chains
  if (zeroing && ozmode && req > n_old) { if (qq != p && was_dirty(qq)) flag(F_ZERO_ON_DIRTY); check_zeroed(qq, n_old, req, f.c_str()); }
  // new state of the slot
  b.pristine = false;
  b.n = req; b.zmode = (ozmode && zeroing && req >= n_old); b.key = m.next_key++;   // the claim covers monotone growth chains only
  if (align_known) { b.a = ea; b.o = eo; } else if (qq != p) { b.a = 1; b.o = 0; }
  model_fill(s);
  verify_neighbours((uintptr_t)qq);
}

// ---- deferred free (mi_register_deferred_free): the program parks blocks and the allocator calls back "when it is a good time" -- from inside a
// generic allocation or a collect of this thread -- and the callback frees them there. The model holds the blocks live until the callback ran.
static void hist_deferred_cb(bool force, unsigned long long heartbeat, void* arg) { (void)force; (void)heartbeat; Exec* ex = (Exec*)arg; if (ex && ex == g_exec) ex->run_deferred(); }
void Exec::run_deferred() {
  if (in_deferred_cb || deferred.empty() || !pthread_equal(pthread_self(), defer_thread)) return;   // (helper threads of talloc/tfree have their own heaps: the program frees on its main thread)
  in_deferred_cb = true; count(C_DEFER_CALLS);
  std::vector<std::pair<int, uint8_t*>> todo; todo.swap(deferred);
  for (auto& e : todo) { Blk& b = m.slots[e.first]; if (!b.live || b.p != e.second || !b.deferred) continue; free_slot(e.first, "free"); if (!b.live) { flag(F_DEFERRED_FREE); b.deferred = false; } }
  in_deferred_cb = false;
}
void Exec::op_defer(const Op& op) {
  int s0 = (int)op.num("s"), k = (int)op.num("k", 1), step = (int)op.num("step", 1), ph = (int)op.num("ph", 0); if (step < 1) step = 1;
  if (!defer_registered) { defer_thread = pthread_self(); mi_register_deferred_free(&hist_deferred_cb, this); defer_registered = true; }
  for (int i = ph; i < k; i += step) { int s = s0 + i; if (s < 0 || s >= NSLOTS) break; Blk& b = m.slots[s]; if (!b.live || b.stranded || b.deferred || b.foreign || b.home < 1) continue; b.deferred = true; deferred.push_back({ s, b.p }); }
}
