// `opts`: options, environment parsing and diagnostic output (C20). Includes mimalloc's single translation unit so that the
// option table can be reset between in-process cases and the internal formatting functions are callable.
// Built with clang AddressSanitizer + -fsanitize=bounds (variant opts-asan) and plain gcc (opts-rel).
//   opts --tier quick|thorough --seed N   -> JSON summary on stdout; a sanitizer report ends the process without a summary
//   opts --replay FILE                    -> re-check recorded inputs; exit 1 if one still fails
#include VF_REPO_STATIC_C
#include <stdio.h>
#include <stdlib.h>
#include <string.h>
#include <ctype.h>
#include <limits.h>
#include <unistd.h>
#include <fcntl.h>
#include <inttypes.h>

typedef unsigned __int128 u128;
static uint64_t rng_s;
static uint64_t rnd(void) { uint64_t z = (rng_s += 0x9E3779B97F4A7C15ull); z = (z ^ (z >> 30)) * 0xBF58476D1CE4E5B9ull; z = (z ^ (z >> 27)) * 0x94D049BB133111EBull; return z ^ (z >> 31); }
static size_t rndn(size_t n) { return n ? (size_t)(rnd() % n) : 0; }

static long n_eval, n_nontrivial, n_viol, n_redrawn; static char samples[8][240]; static int n_samples; static char viol[8][500]; static char viol_replay[8][300];
static long cls[12]; static const char* cls_names[12] = { "env_wellformed", "env_malformed", "env_long_or_huge_environment", "option_api_roundtrip", "snprintf", "strlcpy_strlcat", "stats_json_buffer_sizes", "stats_print_functions", "delayed_output_buffer", "internal_message_formats", 0 };
static int replaying;
static void sample(const char* s) { if (n_samples < 8) snprintf(samples[n_samples++], 240, "%s", s); }
static void violation(const char* replay, const char* fmt, ...) {
  va_list ap; va_start(ap, fmt); char buf[500]; vsnprintf(buf, sizeof buf, fmt, ap); va_end(ap);
  if (n_viol < 8) { snprintf(viol[n_viol], 500, "%s", buf); snprintf(viol_replay[n_viol], 300, "%s", replay); }
  n_viol++; if (replaying) printf("FAIL clause=%s\n", buf);
}
// dedupe of generated inputs for distinct_nontrivial
static uint64_t* hset; static int hset_new(const char* s, uint64_t tag) { if (!hset) hset = (uint64_t*)calloc((size_t)1 << 21, 8); uint64_t h = 1469598103934665603ull ^ tag; for (; *s; s++) { h ^= (unsigned char)*s; h *= 1099511628211ull; } h ^= h >> 31; if (!h) h = 1; size_t i = (size_t)(h & (((uint64_t)1 << 21) - 1)); for (int k = 0; k < 64; k++) { if (hset[i] == h) return 0; if (!hset[i]) { hset[i] = h; return 1; } i = (i + 1) & ((((size_t)1) << 21) - 1); } return 0; }

static void sink(const char* msg, void* arg) { (void)arg; size_t n = strlen(msg); static volatile size_t total; total += n; }
static long defaults[64];
extern char** environ;

// ---------------------------------------------------------------- (a) environment parsing
static bool is_size_opt(int i) { return mi_option_has_size_in_kib((mi_option_t)i); }
static void upper64(const char* v, char* out) { size_t n = strlen(v); if (n > 64) n = 64; for (size_t i = 0; i < n; i++) out[i] = (char)toupper((unsigned char)v[i]); out[n] = 0; }
// classification by the documented grammar (after upper-casing): 1 = boolean, 2 = number (with unit for size options), 0 = neither
static int classify(const char* up, int size_opt, long* expect) {
  static const char* T[] = { "1", "TRUE", "YES", "ON" }, *F[] = { "0", "FALSE", "NO", "OFF" };
  for (int k = 0; k < 4; k++) { if (!strcmp(up, T[k])) { *expect = 1; return 1; } if (!strcmp(up, F[k])) { *expect = 0; return 1; } }
  const char* p = up; int neg = 0; if (*p == '+' || *p == '-') { neg = (*p == '-'); p++; }
  if (!isdigit((unsigned char)*p)) return 0;
  u128 v = 0; int sat = 0; while (isdigit((unsigned char)*p)) { v = v * 10 + (u128)(*p - '0'); if (v > (u128)LONG_MAX + 1) { sat = 1; v = (u128)LONG_MAX + 1; } p++; }
  long val = neg ? (v > (u128)LONG_MAX ? LONG_MIN : -(long)v) : (v > (u128)LONG_MAX ? LONG_MAX : (long)v); (void)sat;
  if (!size_opt) { if (*p != 0) return 0; *expect = val; return 2; }
  u128 size = (val < 0 ? 0 : (u128)val), kib; int unit = 0;
  if (*p == 'K') { kib = size; p++; unit = 1; } else if (*p == 'M') { kib = size * 1024; p++; unit = 1; } else if (*p == 'G') { kib = size * 1024 * 1024; p++; unit = 1; } else if (*p == 'T') { kib = size * 1024 * 1024 * 1024; p++; unit = 1; } else kib = (size + 1023) / 1024;
  if (unit) { if (p[0] == 'I' && p[1] == 'B') p += 2; else if (*p == 'B') p++; }
  if (*p != 0) return 0;
  const u128 maxalloc = (u128)MI_MAX_ALLOC_SIZE;
  if (kib > (u128)SIZE_MAX || kib > maxalloc) kib = maxalloc / 1024;
  *expect = (kib > (u128)LONG_MAX ? LONG_MAX : (long)kib); return 2;
}
static bool is_bool_substring(const char* up) { return up[0] == 0 || strstr("1;TRUE;YES;ON", up) != NULL || strstr("0;FALSE;NO;OFF", up) != NULL; }
// anything strtol(3) would start to accept although the grammar does not (leading white space), or forms the grammar leaves open ("12B")
static bool is_ambiguous(const char* up, int size_opt) {
  if (isspace((unsigned char)up[0])) return true;
  const char* p = up; if (*p == '+' || *p == '-') p++; if (!isdigit((unsigned char)*p)) return false; while (isdigit((unsigned char)*p)) p++;
  if (size_opt && (!strcmp(p, "B") || !strcmp(p, "IB"))) return true;   // "<digits>B" / "<digits>iB": a byte count with a unit-less suffix; accepted by the implementation, left open by the grammar
  return false;
}
static void check_env(int opt, int spelling, const char* value, int junk_before, int expect_class /* -1 unknown */) {
  char rp[300]; snprintf(rp, sizeof rp, "env %d %d %d %s", opt, spelling, junk_before, value); n_eval++;
  mi_option_desc_t* d = &options[opt];
  const char* name = (spelling >= 3 && d->legacy_name ? d->legacy_name : d->name);
  static char entry[9000]; char nm[128]; snprintf(nm, sizeof nm, "mimalloc_%s", name);
  for (size_t k = 0; nm[k]; k++) { if (spelling % 3 == 0) nm[k] = (char)toupper((unsigned char)nm[k]); else if (spelling % 3 == 2 && (k & 1)) nm[k] = (char)toupper((unsigned char)nm[k]); }
  snprintf(entry, sizeof entry, "%s=%s", nm, value);
  static char* envv[10100]; int ne = 0; static char junk[64][40];
  for (int j = 0; j < junk_before && ne < 10050; j++) { if (j < 64) { snprintf(junk[j], 40, "VAR%d=mimalloc_%d", j, j); envv[ne++] = junk[j]; } else envv[ne++] = junk[j % 64]; }
  envv[ne++] = entry; envv[ne++] = (char*)"ZZZ=1"; envv[ne] = NULL;
  char** saved = environ; environ = envv;
  d->value = defaults[opt]; d->init = UNINIT;
  long got = mi_option_get((mi_option_t)opt);
  mi_init_t init = d->init;
  environ = saved;
  if (junk_before >= 10000) { cls[2]++; if (got != defaults[opt] && 0) {} d->value = defaults[opt]; d->init = DEFAULTED; return; }   // beyond the documented 10000-entry scan: only safety
  if (strlen(value) > 64) { cls[2]++; d->value = defaults[opt]; d->init = DEFAULTED; return; }                                        // longer than the 64-byte copy: only safety
  char up[80]; upper64(value, up); long expect = 0; int c = classify(up, is_size_opt(opt), &expect);
  if (c != 0) { cls[0]++;
    if (got != expect || init != INITIALIZED) violation(rp, "env-wellformed: %s -> option %s = %ld (init %d), expected %ld", entry, d->name, got, (int)init, expect);
    if ((strlen(value) > 16 || (is_size_opt(opt) && c == 2 && !isdigit((unsigned char)up[strlen(up) - 1]))) && hset_new(entry, 1)) n_nontrivial++;
  } else if (!is_bool_substring(up) && !is_ambiguous(up, is_size_opt(opt))) { cls[1]++;
    if (got != defaults[opt] || init == INITIALIZED) violation(rp, "env-malformed: %s -> option %s = %ld (init %d), expected the default %ld left in place", entry, d->name, got, (int)init, defaults[opt]);
    if (hset_new(entry, 2)) n_nontrivial++;
  } else n_redrawn++;
  (void)expect_class;
  d->value = defaults[opt]; d->init = DEFAULTED;
}
static void gen_wellformed(char* out, int size_opt) {
  unsigned k = (unsigned)rndn(10);
  if (k == 0) { static const char* b[] = { "1", "true", "TRUE", "Yes", "on", "0", "false", "No", "OFF", "oN" }; strcpy(out, b[rndn(10)]); return; }
  char digits[40];
  if (k >= 5 && k <= 6) {   // boundary values: multiples of large powers of two (+ a small remainder), so that a unit multiplication wraps around to a small number
    uint64_t v = ((uint64_t)(1 + rndn(9)) << (30 + rndn(34))) + (rndn(3) == 0 ? 0 : rndn(5000)); if (rndn(4) == 0) v = ((uint64_t)1 << (10 * (1 + rndn(6)))) * (1 + rndn(4)) - rndn(2);
    sprintf(digits, "%" PRIu64, v); const char* sign0 = (rndn(10) == 0 ? "-" : "");
    if (!size_opt) { sprintf(out, "%s%s", sign0, digits); return; }
    static const char* u0[] = { "K", "M", "G", "T", "g", "GiB", "MB", "tib" }; sprintf(out, "%s%s%s", sign0, digits, u0[rndn(8)]); return;
  }
  size_t nd = (k < 7 ? 1 + rndn(4) : (k < 9 ? 9 + rndn(11) : 19 + rndn(6))); for (size_t i = 0; i < nd; i++) digits[i] = (char)('0' + (i == 0 && nd > 1 ? 1 + rndn(9) : rndn(10))); digits[nd] = 0;
  const char* sign = (rndn(6) == 0 ? "-" : rndn(8) == 0 ? "+" : "");
  if (!size_opt || rndn(4) == 0) { sprintf(out, "%s%s", sign, digits); return; }
  static const char* u[] = { "K", "M", "G", "T", "k", "m", "g", "t" }; static const char* s[] = { "", "iB", "B", "ib", "b", "IB" };
  sprintf(out, "%s%s%s%s", sign, digits, u[rndn(8)], s[rndn(6)]);
}
// leading zeros up to the longest value that is still read completely (64 characters), and one around it
static void pad_to_boundary(char* out) {
  size_t n = strlen(out); if (n == 0 || n >= 60) return; size_t sign = (out[0] == '-' || out[0] == '+') ? 1 : 0; if (!isdigit((unsigned char)out[sign])) return;
  static const size_t L[] = { 64, 64, 64, 63, 62, 33, 48 }; size_t want = L[rndn(7)]; if (want <= n) return; size_t z = want - n;
  memmove(out + sign + z, out + sign, n - sign + 1); memset(out + sign, '0', z);
}
static void gen_malformed(char* out, size_t cap, int size_opt) {
  gen_wellformed(out, size_opt); size_t n = strlen(out); unsigned k = (unsigned)rndn(8);
  static const char junkc[] = "xX=;,. _-+eE'\"/\\\t\x7f\x80\xff#KMGTiBb";
  if (k == 0 && n + 1 < cap) { size_t p = rndn(n + 1); memmove(out + p + 1, out + p, n - p + 1); out[p] = junkc[rndn(sizeof junkc - 1)]; }
  else if (k == 1 && n > 1) { size_t p = rndn(n); out[p] = junkc[rndn(sizeof junkc - 1)]; }
  else if (k == 2) { size_t m = 1 + rndn(20); for (size_t i = 0; i < m && i + 1 < cap; i++) out[i] = (char)(1 + rndn(255)); out[m < cap ? m : cap - 1] = 0; }
  else if (k == 3) { strcat(out, junkc + rndn(8)); }
  else if (k == 4) { snprintf(out, cap, "%s%s", "0x", "1F"); }
  else if (k == 5) { size_t m = 65 + rndn(8000); if (m >= cap) m = cap - 1; for (size_t i = 0; i < m; i++) out[i] = (char)('0' + rndn(10)); out[m] = 0; }
  else if (k == 6) { strcpy(out, rndn(2) ? "maybe" : "enable"); }
  else { size_t p = n ? rndn(n) : 0; out[p] = 0; strcat(out, "=1"); }
}

// ---------------------------------------------------------------- (b) option API round trips
static void check_option_api(int opt, long v) {
  char rp[300]; snprintf(rp, sizeof rp, "api %d %ld", opt, v); n_eval++; cls[3]++;
  mi_option_desc_t* d = &options[opt]; long saved = d->value; mi_init_t si = d->init;
  long gmin = options[mi_option_guarded_min].value, gmax = options[mi_option_guarded_max].value;
  mi_option_set((mi_option_t)opt, v);
  if (mi_option_get((mi_option_t)opt) != v) violation(rp, "api-roundtrip: mi_option_set(%s,%ld) then mi_option_get gives %ld", d->name, v, mi_option_get((mi_option_t)opt));
  long lo = -5, hi = 1000; long c = mi_option_get_clamp((mi_option_t)opt, lo, hi); if (c != (v < lo ? lo : v > hi ? hi : v)) violation(rp, "api-clamp: mi_option_get_clamp(%s)=%ld for value %ld", d->name, c, v);
  size_t sz = mi_option_get_size((mi_option_t)opt); size_t es = (v < 0 ? 0 : (size_t)v) * (is_size_opt(opt) ? 1024 : 1); if (sz != es) violation(rp, "api-size: mi_option_get_size(%s)=%zu for value %ld", d->name, sz, v);
  if (mi_option_is_enabled((mi_option_t)opt) != (v != 0)) violation(rp, "api-enabled: mi_option_is_enabled(%s) for value %ld", d->name, v);
  mi_option_set_default((mi_option_t)opt, v ^ 1); if (mi_option_get((mi_option_t)opt) != v) violation(rp, "api-set-default: mi_option_set_default changed an explicitly set option %s", d->name);
  mi_option_disable((mi_option_t)opt); if (mi_option_get((mi_option_t)opt) != 0) violation(rp, "api-disable: %s", d->name);
  mi_option_enable((mi_option_t)opt); if (mi_option_get((mi_option_t)opt) != 1) violation(rp, "api-enable: %s", d->name);
  mi_option_set_enabled((mi_option_t)opt, false); if (mi_option_get((mi_option_t)opt) != 0 || mi_option_is_enabled((mi_option_t)opt)) violation(rp, "api-set-enabled: %s false", d->name);
  mi_option_set_enabled((mi_option_t)opt, true); if (mi_option_get((mi_option_t)opt) != 1 || !mi_option_is_enabled((mi_option_t)opt)) violation(rp, "api-set-enabled: %s true", d->name);
  mi_option_set_enabled_default((mi_option_t)opt, false); if (mi_option_get((mi_option_t)opt) != 1) violation(rp, "api-set-enabled-default: changed an explicitly set option %s", d->name);
  d->init = DEFAULTED; mi_option_set_enabled_default((mi_option_t)opt, (v & 1) != 0); if (mi_option_get((mi_option_t)opt) != (v & 1)) violation(rp, "api-set-enabled-default2: %s on a defaulted option", d->name);
  d->init = DEFAULTED; mi_option_set_default((mi_option_t)opt, v); if (mi_option_get((mi_option_t)opt) != v) violation(rp, "api-set-default2: mi_option_set_default(%s,%ld) on a defaulted option", d->name, v);
  d->value = saved; d->init = si; options[mi_option_guarded_min].value = gmin; options[mi_option_guarded_max].value = gmax;
  if (v == LONG_MAX || v == LONG_MIN || v == 0 || v == -1) n_nontrivial++;
}

// ---------------------------------------------------------------- (c) formatting
static size_t build_format(char* fmt, size_t cap, uintptr_t args[4], char strs[4][4200], int* has_width) {
  size_t n = 0; int na = 0; *has_width = 0; size_t pieces = 1 + rndn(5);
  for (size_t p = 0; p < pieces && n + 40 < cap; p++) {
    unsigned k = (unsigned)rndn(10);
    if (k < 3) { size_t m = rndn(12); for (size_t i = 0; i < m; i++) { char ch = (char)(32 + rndn(95)); if (ch == '%') ch = '_'; fmt[n++] = ch; } }
    else if (k == 3) { static const char* odd[] = { "%%", "%", "%q", "%5", "%-", "%0", "%l", "%ll", "%z", "%+", "% ", "%12345", "%\x01", "\x80\xff" }; const char* o = odd[rndn(14)]; size_t l = strlen(o);
      memcpy(fmt + n, o, l); n += l; if (p + 1 < pieces) fmt[n++] = '|'; }   // ('|' keeps a truncated spec from swallowing the next piece as a conversion without a matching argument)
    else if (na < 4) {
      fmt[n++] = '%'; if (rndn(4) == 0) fmt[n++] = (rndn(2) ? '+' : ' '); if (rndn(4) == 0) fmt[n++] = '-'; if (rndn(4) == 0) fmt[n++] = '0';
      if (rndn(2)) { *has_width = 1; size_t w = (rndn(8) == 0 ? 100 + rndn(900) : 1 + rndn(40)); n += (size_t)sprintf(fmt + n, "%zu", w); }
      static const char* len[] = { "", "", "z", "t", "l", "ll", "L" }; const char* L = len[rndn(7)]; static const char conv[] = "diuxps";
      char cv = conv[rndn(6)]; if (cv == 's' || cv == 'p') L = "";
      n += (size_t)sprintf(fmt + n, "%s%c", L, cv);
      if (cv == 's') { size_t m = (rndn(6) == 0 ? rndn(4100) : rndn(40)); for (size_t i = 0; i < m; i++) strs[na][i] = (char)(1 + rndn(255)); strs[na][m] = 0; args[na] = (rndn(30) == 0 ? 0 : (uintptr_t)strs[na]); }
      else { static const uintptr_t bv[] = { 0, 1, 9, 10, 255, 256, 65535, 0x7fffffff, 0x80000000u, 0xffffffffu, 0x7fffffffffffffffull, 0x8000000000000000ull, 0xffffffffffffffffull }; args[na] = (rndn(2) ? bv[rndn(13)] : (uintptr_t)rnd()); }
      na++;
    }
  }
  fmt[n] = 0; return n;
}
static void check_snprintf_once(const char* fmt, uintptr_t a[4], size_t bufsize, const char* rp, int nontriv_hint) {
  n_eval++; cls[4]++;
  char* buf = (char*)malloc(bufsize ? bufsize : 1); if (bufsize) memset(buf, 0x5a, bufsize);
  int r = _mi_snprintf(bufsize ? buf : buf, bufsize, fmt, a[0], a[1], a[2], a[3]);
  if (bufsize == 0) { if (r != 0) violation(rp, "snprintf-zero: returned %d for a zero-sized buffer", r); }
  else {
    size_t l = strnlen(buf, bufsize);
    if (l >= bufsize) violation(rp, "snprintf-terminator: no terminator inside a buffer of %zu bytes", bufsize);
    else if (r < 0 || (size_t)r >= bufsize) violation(rp, "snprintf-return: returned %d for a buffer of %zu bytes", r, bufsize);
    else if ((size_t)r != l) violation(rp, "snprintf-length: returned %d but the string is %zu long", r, l);
  }
  free(buf);
  if (nontriv_hint && hset_new(rp, 3)) n_nontrivial++;
}
static void check_strl(size_t fill, size_t dsize, size_t slen) {
  char rp[200]; snprintf(rp, sizeof rp, "strl %zu %zu %zu", fill, dsize, slen); n_eval++; cls[5]++;
  if (dsize == 0 || fill >= dsize) return;
  char* d = (char*)malloc(dsize); char* s = (char*)malloc(slen + 1); memset(s, 'a', slen); s[slen] = 0; memset(d, 'x', dsize); d[fill] = 0;
  _mi_strlcat(d, s, dsize); if (strnlen(d, dsize) >= dsize) violation(rp, "strlcat-terminator: dest size %zu fill %zu src %zu", dsize, fill, slen);
  size_t want = fill + slen; if (want > dsize - 1) want = dsize - 1; if (strnlen(d, dsize) != want) violation(rp, "strlcat-length: got %zu expected %zu", strnlen(d, dsize), want);
  memset(d, 'x', dsize); _mi_strlcpy(d, s, dsize); size_t w2 = slen > dsize - 1 ? dsize - 1 : slen; if (strnlen(d, dsize) != w2) violation(rp, "strlcpy-length: got %zu expected %zu", strnlen(d, dsize), w2);
  free(d); free(s); if (fill + slen + 2 >= dsize && fill + slen <= dsize + 1) n_nontrivial++;
}

// ---------------------------------------------------------------- (d) statistics output
static void randomize_stats(void) { int64_t* p = (int64_t*)&_mi_stats_main; size_t n = sizeof(_mi_stats_main) / 8; for (size_t i = 1; i < n; i++) { unsigned k = (unsigned)rndn(6); int64_t v = (k == 0 ? 0 : k == 1 ? (int64_t)rndn(100000) : k == 2 ? ((int64_t)1 << 62) : k == 3 ? -((int64_t)1 << 62) : (int64_t)(rnd() >> 2) * (rndn(2) ? 1 : -1)); p[i] = v; } _mi_stats_main.version = MI_STAT_VERSION; }
static size_t json_full_len;
static void check_json(size_t size) {
  char rp[100]; snprintf(rp, sizeof rp, "json %zu", size); n_eval++; cls[6]++;
  char* buf = (char*)malloc(size ? size : 1); if (size) memset(buf, 0x5a, size);
  char* r = mi_stats_get_json(size, size ? buf : NULL);
  if (size == 0) { if (r == NULL) violation(rp, "json-null: mi_stats_get_json(0,NULL) returned NULL"); else { size_t l = strlen(r); if (l < 100) violation(rp, "json-short: %zu bytes", l); json_full_len = l; mi_free(r); } }
  else { if (r != buf) violation(rp, "json-return: did not return the caller's buffer"); if (strnlen(buf, size) >= size) violation(rp, "json-terminator: no terminator inside %zu bytes", size); }
  free(buf); if (json_full_len && size + 2 >= json_full_len && size <= json_full_len + 2) n_nontrivial++; else if (size <= 3) n_nontrivial++;
}

static void flood_delayed_output(void) {
  // before any output function is registered the messages go to a 16 KiB delayed buffer (and stderr, which the harness sends to /dev/null)
  n_eval++; cls[8]++; char msg[300]; for (int i = 0; i < 400; i++) { size_t m = 1 + rndn(250); for (size_t k = 0; k < m; k++) msg[k] = (char)('a' + (k % 26)); msg[m] = 0; _mi_message("%s\n", msg); }
  mi_register_output(&sink, NULL); n_nontrivial++;
}

static int do_replay(const char* path) {
  FILE* f = fopen(path, "r"); if (!f) { perror(path); return 2; } static char line[9000]; replaying = 1;
  while (fgets(line, sizeof line, f)) { if (line[0] == '#') continue; size_t l = strlen(line); if (l && line[l-1] == '\n') line[l-1] = 0;
    if (!strncmp(line, "env ", 4)) { int o, sp, jb; int off = 0; if (sscanf(line + 4, "%d %d %d %n", &o, &sp, &jb, &off) >= 3) check_env(o, sp, line + 4 + off, jb, -1); }
    else if (!strncmp(line, "api ", 4)) { int o; long v; if (sscanf(line + 4, "%d %ld", &o, &v) == 2) check_option_api(o, v); }
    else if (!strncmp(line, "strl ", 5)) { size_t a, b, c; if (sscanf(line + 5, "%zu %zu %zu", &a, &b, &c) == 3) check_strl(a, b, c); }
    else if (!strncmp(line, "json ", 5)) { size_t a; if (sscanf(line + 5, "%zu", &a) == 1) { check_json(0); check_json(a); } }
    else if (!strncmp(line, "fmtseed ", 8)) { rng_s = strtoull(line + 8, NULL, 0); static char fmt[600]; uintptr_t a[4] = {0,0,0,0}; static char strs[4][4200]; int hw; build_format(fmt, sizeof fmt, a, strs, &hw); size_t bs = rndn(601); check_snprintf_once(fmt, a, bs, line, 0); }
  }
  fclose(f); if (n_viol == 0) printf("PASS\n"); return n_viol ? 1 : 0;
}
static void jstr(const char* s) { putchar('"'); for (; *s; s++) { unsigned char c = (unsigned char)*s; if (c == '"' || c == '\\') { putchar('\\'); putchar(c); } else if (c < 32 || c > 126) printf("\\u%04x", c); else putchar(c); } putchar('"'); }

int main(int argc, char** argv) {
  int thorough = 0; uint64_t seed = 1; const char* replay = NULL;
  for (int i = 1; i < argc; i++) { if (!strcmp(argv[i], "--tier") && i + 1 < argc) thorough = !strcmp(argv[++i], "thorough"); else if (!strcmp(argv[i], "--seed") && i + 1 < argc) seed = strtoull(argv[++i], NULL, 0); else if (!strcmp(argv[i], "--replay") && i + 1 < argc) replay = argv[++i]; }
  rng_s = seed * 0x9E3779B97F4A7C15ull + 777;
  { int fd = open("/dev/null", O_WRONLY); if (fd >= 0) { dup2(fd, 2); close(fd); } }
  for (int i = 0; i < _mi_option_last; i++) { (void)mi_option_get((mi_option_t)i); defaults[i] = options[i].value; }
  if (replay) { mi_register_output(&sink, NULL); return do_replay(replay); }
  flood_delayed_output();
  long N = thorough ? 400000 : 40000;
  // (a) exhaustive small forms: every option x every boolean spelling x digits up to 3 places x every unit spelling
  { static const char* bools[] = { "1", "true", "yes", "on", "0", "false", "no", "off", "TRUE", "On" }; static const char* units[] = { "", "K", "M", "G", "T", "KiB", "MiB", "GiB", "TiB", "KB", "MB", "GB", "TB", "k", "mib", "gb" };
    for (int o = 0; o < _mi_option_last; o++) { for (int b = 0; b < 10; b++) check_env(o, b % 5, bools[b], 0, 1);
      for (int v = 0; v < 1000; v += (v < 20 ? 1 : (is_size_opt(o) ? 7 : 37))) { char val[40]; if (is_size_opt(o)) { for (int u = 0; u < 16; u++) { sprintf(val, "%d%s", v, units[u]); check_env(o, u % 5, val, u % 3, 2); } } else { sprintf(val, "%d", v); check_env(o, v % 5, val, v % 4, 2); sprintf(val, "-%d", v); check_env(o, 1, val, 0, 2); } } }
    sample("env: every option x {1,true,yes,on,0,false,no,off,...} x digits 0..999 x unit spellings {K,M,G,T,KiB,..,kb,mib} (exhaustive small forms)"); }
  // generated values
  static char val[9000];
  for (long i = 0; i < N; i++) { int o = (int)rndn(_mi_option_last); if (rndn(3) == 0) o = (rndn(2) ? mi_option_arena_reserve : mi_option_reserve_os_memory);
    int wf = (int)rndn(2); if (wf) { gen_wellformed(val, is_size_opt(o)); if (rndn(6) == 0) pad_to_boundary(val); } else gen_malformed(val, sizeof val - 16, is_size_opt(o));
    int junk = (rndn(50) == 0 ? 9990 + (int)rndn(20) : (int)rndn(6)); check_env(o, (int)rndn(6), val, junk, wf ? 2 : 0);
    if (i == 5) { char s[240]; snprintf(s, sizeof s, "env option=%s value=\"%.60s\" (generated %s)", options[o].name, val, wf ? "well-formed" : "malformed"); sample(s); } }
  // (b)
  { static const long vs[] = { 0, 1, -1, 2, 10, 1000, LONG_MAX, LONG_MIN, LONG_MAX - 1, 1L << 31, 1L << 32, -(1L << 40) }; for (int o = 0; o < _mi_option_last; o++) for (int k = 0; k < 12; k++) check_option_api(o, vs[k]); for (long i = 0; i < N / 10; i++) check_option_api((int)rndn(_mi_option_last), (long)rnd()); sample("api: mi_option_set/get/get_clamp/get_size/is_enabled/set_default/enable/disable for all options x boundary long values"); }
  // (c)
  { static char fmt[600]; static char strs[4][4200]; for (long i = 0; i < N; i++) { uint64_t fs = rnd(); uint64_t save = rng_s; rng_s = fs; uintptr_t a[4] = {0,0,0,0}; int hw; build_format(fmt, sizeof fmt, a, strs, &hw); size_t bs = rndn(601); char rp[64]; snprintf(rp, sizeof rp, "fmtseed %" PRIu64, fs);
        // the buffer size within +-2 of the formatted length is the interesting boundary: measure the length with a large buffer first
        static char big[20000]; int full = _mi_snprintf(big, sizeof big, fmt, a[0], a[1], a[2], a[3]); int near = 0; if (rndn(3) == 0 && full >= 0) { bs = (size_t)full + rndn(5); if (bs >= 2) bs -= 2; near = 1; }
        check_snprintf_once(fmt, a, bs, rp, near || hw); rng_s = save; if (i == 7) { char s[240]; snprintf(s, sizeof s, "snprintf fmt=\"%.80s\" bufsize=%zu", fmt, bs); sample(s); } }
    for (size_t ds = 0; ds <= 80; ds++) for (size_t fill = 0; fill <= ds; fill++) for (size_t sl = 0; sl <= 80; sl += (sl < 12 ? 1 : 7)) check_strl(fill, ds, sl);
    sample("strl: _mi_strlcpy/_mi_strlcat for all (dest fill, dest size, src length) up to 80 on exactly sized heap buffers"); }
  // internal message functions with long arguments (512-byte internal buffer + thread prefix)
  { char longs[3000]; for (int i = 0; i < 300; i++) { n_eval++; cls[9]++; size_t m = rndn(2900); memset(longs, 'w', m); longs[m] = 0; _mi_warning_message("%s %zu 0x%zx %p %d\n", longs, (size_t)rnd(), (size_t)rnd(), (void*)longs, (int)rnd()); _mi_verbose_message("%s\n", longs); _mi_trace_message("%s\n", longs); _mi_message("%10s|%-10s|%05d\n", longs, "x", 42); if (m > 500) n_nontrivial++; } }
  // (d)
  { check_json(0); size_t full = json_full_len; for (int round = 0; round < (thorough ? 6 : 2); round++) { randomize_stats(); check_json(0); full = json_full_len; size_t step = thorough ? 1 : 3; for (size_t s = 1; s <= full + 2; s += (s < 300 || s + 300 > full ? 1 : step)) check_json(s); }
    sample("json: mi_stats_get_json(size, exact-size heap buffer) for every size 1..full+2 (dense near both ends) and (0,NULL), with randomised statistics values up to +-2^62");
    for (int round = 0; round < (thorough ? 200 : 30); round++) { randomize_stats(); n_eval += 4; cls[7] += 4; mi_stats_print_out(&sink, NULL); mi_thread_stats_print_out(&sink, NULL); mi_options_print(); mi_arenas_print(); n_nontrivial++;
      /* legacy / rarely used forms: mi_stats_print(out) forwards to the same printer, mi_stats_merge folds the thread statistics into the main ones,
         mi_process_info accepts any subset of its out-parameters */
      n_eval += 3; cls[7] += 3; mi_stats_print((void*)&sink); mi_stats_merge();
      { size_t el = 1, ut = 2, st = 3, cr = 4, pr = 5, cc = 6, pc = 7, pf = 8; mi_process_info(&el, &ut, &st, &cr, &pr, &cc, &pc, &pf); mi_process_info(NULL, NULL, NULL, NULL, NULL, NULL, NULL, NULL); mi_process_info(&el, NULL, &st, NULL, &pr, NULL, &pc, NULL); (void)cr; (void)ut; (void)cc; (void)pf; } }
    mi_stats_reset(); }
  printf("{\"evaluations\":%ld,\"distinct_nontrivial\":%ld,\"violations\":%ld,\"classes\":{", n_eval, n_nontrivial, n_viol);
  for (int i = 0; cls_names[i]; i++) printf("%s\"%s\":%ld", i ? "," : "", cls_names[i], cls[i]);
  printf(",\"ambiguous_values_not_asserted\":%ld},\"samples\":[", n_redrawn); for (int i = 0; i < n_samples; i++) { if (i) putchar(','); jstr(samples[i]); }
  printf("],\"violation_list\":["); for (int i = 0; i < n_viol && i < 8; i++) { if (i) putchar(','); printf("{\"msg\":"); jstr(viol[i]); printf(",\"replay\":"); jstr(viol_replay[i]); putchar('}'); }
  printf("]}\n");
  return 0;
}
