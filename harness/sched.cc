// `sched`: small multi-threaded programs under a deterministic scheduler (C02 C08 C09 C10b C14).
// Virtual threads are real pthreads that run one at a time (baton = per-thread semaphore); a thread can lose the baton only at a
// scheduling point: before every mi_atomic operation of mimalloc (hook header), at mi_atomic_yield, at a failed lock acquire, at
// harness-level waits and at thread end. A schedule (preemptions, priorities, spurious weak-CAS failures) is generated data.
#include "../engine/eng.hpp"
#include "../engine/vf_shim.h"
#include <mimalloc.h>
#include <pthread.h>
#include <semaphore.h>
#include <sys/mman.h>
#include <sys/prctl.h>
#include <tuple>

using eng::Op; using eng::Case; using eng::Result; using eng::fail_now; using eng::Chooser;

#define KiB ((size_t)1024)
#define MiB (KiB*KiB)
enum { MI_VF_LOAD = 0, MI_VF_STORE, MI_VF_XCHG, MI_VF_RMW, MI_VF_CAS, MI_VF_LOCK, MI_VF_UNLOCK };
enum { F_PREEMPT_IN_CALL = 0, F_CONFLICT, F_SPURIOUS_CAS, F_REMOTE_FREE, F_THREAD_DONE_LIVE, F_RECLAIM_SEEN, F_HEAP_DELETE_RACE, F_DELAYED_PATH, F_QUIESCENT_EMPTY, F_ARENA_ROLLBACK, F_BITMAP_CROSS, F_PC_RUN, F_REMOTE_FULL, F_REUSE_PROBE, F_YIELD_NOOP, F_ADDR_RULE, F_NFLAGS };
static const char* FLAG_NAMES[] = { "preempt_inside_call", "conflicting_rmw_while_preempted", "spurious_weak_cas_failure", "remote_free", "thread_done_with_live_blocks", "abandoned_segment_reclaimed_or_freed_remotely", "heap_delete_or_collect_raced", "first_remote_free_delayed_path", "quiescent_heap_empty", "arena_claim_rollback", "bitmap_claim_crossed_field", "producer_consumer_run", "remote_free_into_full_page", "reuse_probe_with_room", "yield_without_progress_of_others", "address_directed_switch_fired" };
enum { C_STEPS = 0, C_SWITCHES, C_ALLOCS, C_FREES, C_SPINS, C_WEAKCAS, C_WAITS, C_AREAS_MAX, C_NCOUNTERS };
static const char* COUNTER_NAMES[] = { "atomic_steps", "context_switches", "allocs", "frees", "spins", "weak_cas_ops", "harness_waits", "areas_max" };

static inline void* launder(void* p) { __asm__ volatile("" : "+r"(p)); return p; }
static inline uint8_t pat_byte(uint32_t key, size_t i) { uint64_t w = ((uint64_t)key * 0x9E3779B97F4A7C15ull + (uint64_t)(i >> 3) * 0xBF58476D1CE4E5B9ull) | 0x0101010101010101ull; return (uint8_t)(w >> (8 * (i & 7))); }

// ---------------------------------------------------------------- shared trace (probe run -> generator)
struct TraceRec { uint8_t thread, kind; uint16_t op; uint32_t addr; };
static const size_t TRACE_MAX = 1 << 19;
struct TraceBuf { volatile uint32_t nsteps, nweakcas, nrec; TraceRec rec[TRACE_MAX]; };
static TraceBuf* g_trace = nullptr;

// ---------------------------------------------------------------- scheduler state (child process)
static const int MAXT = 4;
struct VT { bool waiting = false; std::function<bool()> can_go;   /* harness-level wait: set while waiting; true when the awaited condition holds */ pthread_t th; sem_t sem; int state = 0; /*0 new,1 runnable,2 done*/ long spins = 0; bool in_call = false; bool preempted_in_call = false;
            std::vector<uint32_t> call_addrs; std::vector<uint32_t> foreign_rmw; int cur_op = -1; };
struct Sched {
  int nthreads = 0; VT vt[MAXT]; int cur = -1; long step = 0; long weakcas = 0; bool active = false;
  std::vector<std::pair<long,int>> preempts; size_t next_pre = 0; std::vector<int> prio; std::vector<long> casfail; size_t next_cas = 0;
  struct Rule { int thread; uint32_t addr; long k; int to; long seen = 0; bool fired = false; }; std::vector<Rule> rules;   /* directive G: when `thread` is about to make its k-th atomic access to `addr`, switch to `to` */
  long yield_skip = 0, yield_noop = 0;   /* schedule directive Y: after `skip` allocator yields, the next `n` yields return at once (the OS did not run anyone else) */
  long step_limit = 4000000; sem_t done_sem; Result* r = nullptr; bool aborted = false;
};
static Sched S;
static __thread int vt_self = -1;

static void flag(int f) { S.r->flags |= (1ull << f); }
static bool runnable(int t) { return t >= 0 && t < S.nthreads && S.vt[t].state != 2; }
static void switch_to(int t) {   // called by the running virtual thread
  int self = vt_self; if (t == self) return;
  S.r->counters[C_SWITCHES]++;
  if (S.vt[self].in_call) { S.vt[self].preempted_in_call = true; flag(F_PREEMPT_IN_CALL); }
  S.cur = t; sem_post(&S.vt[t].sem);
  while (sem_wait(&S.vt[self].sem) != 0) {}
}
static int pick_other(int self, bool fair) {   // next runnable thread: by priority, or cyclically after self
  if (fair) { for (int d = 1; d <= S.nthreads; d++) { int t = (self + d) % S.nthreads; if (t != self && runnable(t)) return t; } return -1; }
  for (int t : S.prio) if (t != self && runnable(t)) return t;
  return -1;
}
[[noreturn]] static void sched_skip(const char* why) { S.r->status = eng::ST_SKIP; snprintf(S.r->clause, sizeof S.r->clause, "%s", why); ssize_t w = write(eng::g_result_fd, S.r, sizeof *S.r); (void)w; _exit(0); }

extern "C" void mi_verif_point(const volatile void* addr, int kind) {
  int self = vt_self; if (self < 0 || !S.active) return;
  S.step++; S.r->counters[C_STEPS]++;
  uint32_t a = (uint32_t)(((uintptr_t)addr) >> 3);
  if (g_trace && g_trace->nrec < TRACE_MAX) { TraceRec& tr = g_trace->rec[g_trace->nrec++]; tr.thread = (uint8_t)self; tr.kind = (uint8_t)kind; tr.op = (uint16_t)S.vt[self].cur_op; tr.addr = a; }
  VT& me = S.vt[self];
  if (me.in_call && me.call_addrs.size() < 256) me.call_addrs.push_back(a);
  if (kind != MI_VF_LOAD) for (int t = 0; t < S.nthreads; t++) if (t != self && S.vt[t].preempted_in_call && S.vt[t].foreign_rmw.size() < 256) S.vt[t].foreign_rmw.push_back(a);
  if (S.step > S.step_limit) sched_skip("step-limit");
  { int go = -1; for (auto& r : S.rules) if (!r.fired && r.thread == self && r.addr == a && ++r.seen == r.k) { r.fired = true; flag(F_ADDR_RULE); if (go < 0 && r.to != self && runnable(r.to)) go = r.to; }
    if (go >= 0) switch_to(go); }
  if (S.next_pre < S.preempts.size() && S.preempts[S.next_pre].first <= S.step) {
    int t = S.preempts[S.next_pre].second; S.next_pre++;
    if (t != self && runnable(t)) switch_to(t);
  }
}
extern "C" int mi_verif_cas_weak_fail(void) {
  if (vt_self < 0 || !S.active) return 0;
  long idx = S.weakcas++; S.r->counters[C_WEAKCAS]++;
  if (S.next_cas < S.casfail.size() && S.casfail[S.next_cas] == idx) { S.next_cas++; flag(F_SPURIOUS_CAS); return 1; }
  return 0;
}
extern "C" void mi_verif_spin(void) {
  int self = vt_self; if (self < 0 || !S.active) { sched_yield(); return; }
  S.r->counters[C_SPINS]++; VT& me = S.vt[self]; me.spins++;
  if (S.yield_skip > 0) S.yield_skip--; else if (S.yield_noop > 0) { S.yield_noop--; flag(F_YIELD_NOOP); return; }
  int t = pick_other(self, true);
  if (t < 0) { if (me.spins > 10000) fail_now("livelock", "thread %d spins in the allocator (op #%d) while no other thread can run", self, me.cur_op); return; }
  if (me.spins > 200000) sched_skip("spin-limit");
  switch_to(t);
}
static void vt_wait_yield() {   // harness-level wait (a slot is not filled yet)
  int self = vt_self; S.r->counters[C_WAITS]++; int t = pick_other(self, true); if (t >= 0) switch_to(t);
}
// can any other thread still do something that could end our wait? (not done and not itself waiting at harness level)
static bool others_alive(int self) { for (int t = 0; t < S.nthreads; t++) if (t != self && S.vt[t].state != 2 && (!S.vt[t].waiting || (S.vt[t].can_go && S.vt[t].can_go()))) return true; return false; }
static bool others_not_done(int self) { for (int t = 0; t < S.nthreads; t++) if (t != self && S.vt[t].state != 2) return true; return false; }

// ---------------------------------------------------------------- model
struct Slot { uint8_t* p = nullptr; size_t n = 0, u = 0; uint32_t key = 0; bool live = false; int by = -1; };
static const int NSLOT = 1024;
struct Model { Slot slots[NSLOT]; std::map<uintptr_t,int> live; uint32_t next_key = 1; mi_heap_t* heaps[MAXT][4] = {}; bool heap_alive[MAXT][4] = {}; };
static Model M;

static void call_begin() { VT& me = S.vt[vt_self]; me.in_call = true; me.preempted_in_call = false; me.call_addrs.clear(); me.foreign_rmw.clear(); }
static void call_end() {
  VT& me = S.vt[vt_self]; me.in_call = false;
  if (me.preempted_in_call) { for (uint32_t a : me.foreign_rmw) { bool hit = false; for (uint32_t b : me.call_addrs) if (a == b) { hit = true; break; } if (hit) { flag(F_CONFLICT); break; } } }
  me.preempted_in_call = false; me.foreign_rmw.clear();
}
static void model_add(int s, uint8_t* p, size_t n, int by, const char* what) {
  size_t u = mi_usable_size(p); if (u < n) fail_now("usable", "%s: usable %zu < %zu", what, u, n);
  uintptr_t lo = (uintptr_t)p, hi = lo + (u ? u : 1);
  auto it = M.live.upper_bound(lo);
  if (it != M.live.end() && it->first < hi) fail_now("overlap", "thread %d op#%d %s: new block [%p,+%zu) overlaps live slot %d [%p,+%zu) (allocated by thread %d)", by, S.vt[by].cur_op, what, p, u, it->second, M.slots[it->second].p, M.slots[it->second].u, M.slots[it->second].by);
  if (it != M.live.begin()) { --it; Slot& o = M.slots[it->second]; if (it->first + (o.u ? o.u : 1) > lo) fail_now("overlap", "thread %d op#%d %s: new block [%p,+%zu) overlaps live slot %d [%p,+%zu) (allocated by thread %d)", by, S.vt[by].cur_op, what, p, u, it->second, o.p, o.u, o.by); }
  Slot& b = M.slots[s]; b.p = p; b.n = n; b.u = u; b.key = M.next_key++; b.live = true; b.by = by; M.live[lo] = s;
  uint8_t* q = (uint8_t*)launder(p); for (size_t i = 0; i < u; i += (u > 16*KiB ? 509 : 1)) q[i] = pat_byte(b.key, i); if (u) q[u-1] = pat_byte(b.key, u-1);
  S.r->counters[C_ALLOCS]++;
}
static void model_check(int s, const char* when) {
  Slot& b = M.slots[s]; if (!b.live) return; const uint8_t* q = (const uint8_t*)launder(b.p);
  for (size_t i = 0; i < b.u; i += (b.u > 16*KiB ? 509 : 1)) if (q[i] != pat_byte(b.key, i)) fail_now("contents", "%s: slot %d block %p (allocated by thread %d) byte %zu is 0x%02x expected 0x%02x", when, s, b.p, b.by, i, q[i], pat_byte(b.key, i));
  if (b.u && q[b.u-1] != pat_byte(b.key, b.u-1)) fail_now("contents", "%s: slot %d block %p last byte changed", when, s, b.p);
}
static void model_remove(int s) { Slot& b = M.slots[s]; M.live.erase((uintptr_t)b.p); b.live = false; S.r->counters[C_FREES]++; }

static int g_mi_err[3]; static int g_last_err;
static void err_fun(int err, void*) { g_last_err = err; if (err == EAGAIN) g_mi_err[0]++; else if (err == EFAULT) g_mi_err[1]++; else if (err == EINVAL) g_mi_err[2]++; }
static void out_fun(const char* m, void*) { if (getenv("VF_SHOW_MI_OUTPUT")) fputs(m, stderr); }

// ---------------------------------------------------------------- program execution
struct Prog { std::vector<std::vector<Op>> ops; int nthreads = 0; std::vector<Op> opts; std::string mode; };
static Prog P;

struct AreaCount { size_t areas = 0, used = 0; };
static bool area_cb(const mi_heap_t*, const mi_heap_area_t* area, void* block, size_t, void* arg) { if (block) return true; AreaCount* c = (AreaCount*)arg; c->areas++; c->used += area->used; return true; }
static bool count_cb(const mi_heap_t*, const mi_heap_area_t*, void* block, size_t, void* arg) { if (block) (*(size_t*)arg)++; return true; }

#include "sched_special.hpp"

static void exec_op(int self, const Op& op, int opi) {
  S.vt[self].cur_op = opi; eng::g_cur_op = opi;
  const std::string& nm = op.name;
  int e0 = g_mi_err[0] + g_mi_err[1] + g_mi_err[2];
  if (nm == "A") {
    int s = (int)op.num("s"); if (s < 0 || s >= NSLOT || M.slots[s].live) return; size_t n = op.num("n"); int h = (int)op.num("h", 0); size_t a = op.num("a", 0);
    mi_heap_t* hp = (h > 0 && h < 4 && M.heap_alive[self][h]) ? M.heaps[self][h] : nullptr; if (h > 0 && !hp) return;
    call_begin(); void* p = hp ? mi_heap_malloc(hp, n) : (a > 16 ? mi_malloc_aligned(n, a) : (op.num("z", 0) ? mi_zalloc(n) : mi_malloc(n))); call_end();
    if (!p) fail_now("null", "thread %d op#%d malloc(%zu) returned NULL", self, opi, n);
    model_add(s, (uint8_t*)launder(p), n, self, "A");
  }
  else if (nm == "F") {
    int s = (int)op.num("s"); if (s < 0 || s >= NSLOT) return;
    S.vt[self].waiting = true; S.vt[self].can_go = [s]() { return M.slots[s].live; };
    while (!M.slots[s].live) { if (!others_alive(self)) { S.vt[self].waiting = false; return; } vt_wait_yield(); }   // (a slot nobody will ever fill: the op is skipped)
    S.vt[self].waiting = false;
    Slot& b = M.slots[s]; model_check(s, "before-free"); uint8_t* p = b.p; if (b.by != self) flag(F_REMOTE_FREE);
    if (b.by != self && S.vt[b.by].state == 2) flag(F_RECLAIM_SEEN);
    model_remove(s);
    call_begin(); mi_free(p); call_end();
  }
  else if (nm == "C") { call_begin(); mi_collect(op.num("force") != 0); call_end(); }
  else if (nm == "V") { for (int s = 0; s < NSLOT; s++) if (M.slots[s].live && M.slots[s].by == self) model_check(s, "V"); }
  else if (nm == "VA") { for (auto& kv : M.live) model_check(kv.second, "VA"); }
  else if (nm == "HN") { int h = (int)op.num("h"); if (h < 1 || h >= 4 || M.heap_alive[self][h]) return; call_begin(); mi_heap_t* hp = mi_heap_new(); call_end(); if (!hp) fail_now("null", "mi_heap_new returned NULL"); M.heaps[self][h] = hp; M.heap_alive[self][h] = true; }
  else if (nm == "HD") { int h = (int)op.num("h"); if (h < 1 || h >= 4 || !M.heap_alive[self][h]) return; flag(F_HEAP_DELETE_RACE); call_begin(); mi_heap_delete(M.heaps[self][h]); call_end(); M.heap_alive[self][h] = false; }
  else if (nm == "HC") { int h = (int)op.num("h"); if (h < 1 || h >= 4 || !M.heap_alive[self][h]) return; flag(F_HEAP_DELETE_RACE); call_begin(); mi_heap_collect(M.heaps[self][h], op.num("force") != 0); call_end(); }
  else if (nm == "J") { S.vt[self].waiting = true; S.vt[self].can_go = [self]() { return !others_not_done(self); }; while (others_not_done(self)) vt_wait_yield(); S.vt[self].waiting = false; }
  else if (nm == "D") { bool live_mine = false; for (auto& kv : M.live) if (M.slots[kv.second].by == self) live_mine = true; if (live_mine) flag(F_THREAD_DONE_LIVE);
    for (int h = 1; h < 4; h++) M.heap_alive[self][h] = false;
    call_begin(); mi_thread_done(); call_end(); }
  else if (nm == "Q") {   // quiescence (owner): everything this heap ever handed out was freed by someone: after a forced collect it must hold no used block
    bool mine_live = false; for (auto& kv : M.live) if (M.slots[kv.second].by == self) mine_live = true; if (mine_live) return;
    call_begin(); mi_collect(true); call_end();
    AreaCount ac; mi_heap_visit_blocks(mi_heap_get_backing(), false, &area_cb, &ac);
    size_t desc = 0; for (int h = 1; h < 4; h++) if (M.heap_alive[self][h]) desc++;
    if (ac.used != desc) fail_now("lost-blocks", "thread %d: all %s blocks were freed and the owner force-collected, but its heap still reports %zu used block(s) in %zu area(s)", self, "of its", ac.used - desc, ac.areas);
    flag(F_QUIESCENT_EMPTY);
  }
  else special_op(self, op, opi);
  int e1 = g_mi_err[0] + g_mi_err[1] + g_mi_err[2];
  if (e1 != e0) fail_now("mi-error", "thread %d op#%d (%s): the allocator reported corruption/double free/invalid pointer (code %d)", self, opi, op.text().c_str(), g_last_err);
}

static void* vthread_main(void* arg) {
  int self = (int)(intptr_t)arg; vt_self = self;
  while (sem_wait(&S.vt[self].sem) != 0) {}
  if (P.mode == "C09s" ) {}
  bool done_called = false;
  for (size_t i = 0; i < P.ops[self].size(); i++) { exec_op(self, P.ops[self][i], (int)P.ops[self][i].num("i", i)); if (P.ops[self][i].name == "D") { done_called = true; break; } }
  // every virtual thread ends its allocator life while it is still scheduled (mi_thread_done is what the pthread-key destructor calls);
  // the automatic destructor call after the pthread returns then sees an uninitialised heap and performs no atomic operation
  if (!done_called) { Op d("D"); exec_op(self, d, -1); }
  // thread end: hand the baton on
  S.vt[self].state = 2; vt_self = -1;
  int t = -1; for (int x : S.prio) if (runnable(x)) { t = x; break; }
  if (t >= 0) { S.cur = t; sem_post(&S.vt[t].sem); } else sem_post(&S.done_sem);
  return nullptr;
}

static int opt_index(const std::string& name) {
  static const char* N[] = { "show_errors","show_stats","verbose","eager_commit","arena_eager_commit","purge_decommits","allow_large_os_pages","reserve_huge_os_pages","reserve_huge_os_pages_at","reserve_os_memory","deprecated_segment_cache","deprecated_page_reset","abandoned_page_purge","deprecated_segment_reset","eager_commit_delay","purge_delay","use_numa_nodes","disallow_os_alloc","os_tag","max_errors","max_warnings","max_segment_reclaim","destroy_on_exit","arena_reserve","arena_purge_mult","purge_extend_delay","abandoned_reclaim_on_free","disallow_arena_alloc","retry_on_oom","visit_abandoned","guarded_min","guarded_max","guarded_precise","guarded_sample_rate","guarded_sample_seed","target_segments_per_thread","generic_collect" };
  for (int i = 0; i < 37; i++) if (name == N[i]) return i; return -1;
}

static void run_program(const Case& c, Result& r, const std::string& mode) {
  memset(&S.step, 0, sizeof S.step); S.r = &r; P = Prog(); P.mode = mode;
  int T = 0;
  for (auto& op : c) {
    if (op.name == "opt") { P.opts.push_back(op); continue; }
    if (op.name == "P") { S.preempts.push_back({ (long)op.num("step"), (int)op.num("to") }); continue; }
    if (op.name == "X") { S.casfail.push_back((long)op.num("idx")); continue; }
    if (op.name == "G") { Sched::Rule r; r.thread = (int)op.num("t"); r.addr = (uint32_t)op.num("a"); r.k = (long)op.num("k", 1); r.to = (int)op.num("to"); if (S.rules.size() < 16) S.rules.push_back(r); continue; }
    if (op.name == "Y") { S.yield_skip = (long)op.num("skip", 0); S.yield_noop = (long)op.num("n", 4); if (S.yield_noop > 64) S.yield_noop = 64; continue; }
    if (op.name == "R") { std::string o = op.str("order"); for (char ch : o) if (ch >= '0' && ch <= '9') S.prio.push_back(ch - '0'); continue; }
    int t = (int)op.num("t", 0); if (t < 0 || t >= MAXT) continue; if (t + 1 > T) T = t + 1;
    if ((int)P.ops.size() < T) P.ops.resize((size_t)T);
    P.ops[(size_t)t].push_back(op);
  }
  if (T == 0) { r.status = eng::ST_PASS; return; }
  std::sort(S.preempts.begin(), S.preempts.end()); std::sort(S.casfail.begin(), S.casfail.end());
  for (int t = 0; t < T; t++) if (std::find(S.prio.begin(), S.prio.end(), t) == S.prio.end()) S.prio.push_back(t);
  S.nthreads = T; P.nthreads = T;
  mi_register_error(&err_fun, nullptr); mi_register_output(&out_fun, nullptr);
  for (auto& o : P.opts) { int i = opt_index(o.str("name")); if (i >= 0) mi_option_set((mi_option_t)i, (long)o.snum("v")); }
  special_setup(c);
  sem_init(&S.done_sem, 0, 0);
  for (int t = 0; t < T; t++) { sem_init(&S.vt[t].sem, 0, 0); S.vt[t].state = 1; }
  for (int t = 0; t < T; t++) if (pthread_create(&S.vt[t].th, nullptr, &vthread_main, (void*)(intptr_t)t) != 0) { perror("pthread_create"); _exit(2); }
  if (g_trace) { g_trace->nrec = 0; }
  S.active = true; int first = S.prio[0]; S.cur = first; sem_post(&S.vt[first].sem);
  while (sem_wait(&S.done_sem) != 0) {}
  S.active = false;
  for (int t = 0; t < T; t++) pthread_join(S.vt[t].th, nullptr);
  if (g_trace) { g_trace->nsteps = (uint32_t)S.step; g_trace->nweakcas = (uint32_t)S.weakcas; }
  if (g_trace && getenv("VF_TRACE_DUMP")) { static const char* KN[] = { "load", "store", "xchg", "rmw", "cas", "lock", "unlock" }; for (uint32_t i = 0; i < g_trace->nrec; i++) { TraceRec& tr = g_trace->rec[i]; fprintf(stderr, "step %u t%d op#%d %s a=%u\n", i + 1, tr.thread, (int)tr.op, KN[tr.kind % 7], tr.addr); } }
  // ---- final phase on the real main thread (unscheduled): everything still live is verified and freed, then nothing may remain anywhere
  for (int s = 0; s < NSLOT; s++) if (M.slots[s].live) { model_check(s, "final"); uint8_t* p = M.slots[s].p; if (S.vt[M.slots[s].by].state == 2) flag(F_RECLAIM_SEEN); model_remove(s); mi_free(p); }
  special_final();
  mi_collect(true);
  if (g_mi_err[0] + g_mi_err[1] + g_mi_err[2] != 0) fail_now("mi-error", "final phase: the allocator reported an error (code %d)", g_last_err);
  if (special_wants_global_quiescence()) {
    AreaCount ac; mi_heap_visit_blocks(mi_heap_get_backing(), false, &area_cb, &ac);
    if (ac.used != 0) fail_now("leak-main-heap", "after all threads ended, every block was freed and the main thread force-collected (reclaiming all abandoned segments), the main heap reports %zu used block(s)", ac.used);
    if (mi_option_is_enabled(mi_option_visit_abandoned)) { size_t nb = 0; mi_abandoned_visit_blocks(mi_subproc_main(), -1, true, &count_cb, &nb); if (nb != 0) fail_now("leak-abandoned", "after quiescence %zu block(s) are still reported in abandoned segments", nb); }
    // no OS-allocated segment may still be mapped (arenas and small bookkeeping maps excepted)
    static vf_region_t regs[4096]; size_t n = vf_regions(regs, 4096); size_t big = 0; uintptr_t first = 0;
    for (size_t i = 0; i < n; i++) { bool in_arena = false; for (int id = 1; id <= 32; id++) { size_t sz; void* a = mi_arena_area((mi_arena_id_t)id, &sz); if (!a) break; if (regs[i].addr < (uintptr_t)a + sz && (uintptr_t)a < regs[i].addr + regs[i].len) in_arena = true; }
      if (!in_arena && regs[i].len > 64*KiB) { big++; if (!first) first = regs[i].addr; } }
    if (big != 0) fail_now("leak-os-segment", "after quiescence %zu segment-sized OS mapping(s) are still mapped (first at %p)", big, (void*)first);
  }
  r.status = eng::ST_PASS;
  uint64_t F = r.flags;
  bool conflict = (F >> F_CONFLICT) & 1;
  if (mode == "C02") r.nontrivial = conflict;
  else if (mode == "C08") r.nontrivial = (conflict && ((F >> F_REMOTE_FREE) & 1) && ((F >> F_QUIESCENT_EMPTY) & 1)) || ((F >> F_PC_RUN) & 1) || (((F >> F_REMOTE_FULL) & 1) && ((F >> F_REUSE_PROBE) & 1));
  else if (mode == "C09") r.nontrivial = ((F >> F_THREAD_DONE_LIVE) & 1) && ((F >> F_RECLAIM_SEEN) & 1);
  else if (mode == "C10") r.nontrivial = conflict && ((F >> F_HEAP_DELETE_RACE) & 1);
  else if (mode == "C14") r.nontrivial = ((F >> F_BITMAP_CROSS) & 1) && (((F >> F_ARENA_ROLLBACK) & 1) || conflict);
  else r.nontrivial = conflict;
}

#include "sched_gen.hpp"

struct SchedHarness : eng::Harness {
  std::vector<std::string> flag_names() override { return std::vector<std::string>(FLAG_NAMES, FLAG_NAMES + F_NFLAGS); }
  std::vector<std::string> counter_names() override { return std::vector<std::string>(COUNTER_NAMES, COUNTER_NAMES + C_NCOUNTERS); }
  void zygote_init(const std::string&) override {
    prctl(PR_SET_THP_DISABLE, 1, 0, 0, 0); vf_clock_virtual(1);
    g_trace = (TraceBuf*)mmap(nullptr, sizeof(TraceBuf), PROT_READ | PROT_WRITE, MAP_SHARED | MAP_ANONYMOUS, -1, 0); if (g_trace == MAP_FAILED) g_trace = nullptr;
  }
  SchedGen gen;
  Case generate(const std::string& mode, Chooser& ch, uint64_t idx) override { return gen.generate(*this, mode, ch, idx); }
  void execute(const std::string& mode, const Case& c, Result& r) override { run_program(c, r, mode); }
};

int main(int argc, char** argv) { SchedHarness h; return eng::main_driver(h, argc, argv); }
