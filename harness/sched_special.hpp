// Special ops of the `sched` harness: producer/consumer runs (C08b), raw bitmap scripts and arena workloads (C14).
#pragma once
#include <deque>

static bool g_global_quiescence = true;
static bool special_wants_global_quiescence() { return g_global_quiescence; }

// ---------------------------------------------------------------- C08(b): bounded producer/consumer
struct PCState { std::deque<int> ring; size_t cap = 4; size_t rounds = 0; size_t n = 64; bool prod_done = false; std::vector<size_t> samples; int next_slot = 0; };
static PCState PC;

static void probe_reuse(int self, mi_heap_t* hp, size_t n, int opi);   // (defined with the keeper rounds below)
static void pc_producer(int self, const Op& op) {
  PC.rounds = op.num("rounds", 400); PC.cap = op.num("live", 4); PC.n = op.num("n", 64); if (PC.cap < 1) PC.cap = 1; if (PC.cap > 256) PC.cap = 256;
  size_t every = PC.rounds / 20 + 1;
  for (size_t r = 0; r < PC.rounds; r++) {
    S.vt[self].waiting = true; S.vt[self].can_go = []() { return PC.ring.size() < PC.cap; }; while (PC.ring.size() >= PC.cap) { if (!others_alive(self)) { S.vt[self].waiting = false; PC.prod_done = true; return; } vt_wait_yield(); } S.vt[self].waiting = false;
    int s = PC.next_slot; PC.next_slot = (PC.next_slot + 1) % NSLOT; if (M.slots[s].live) continue;
    call_begin(); void* p = mi_malloc(PC.n); call_end(); if (!p) fail_now("null", "producer: malloc(%zu) returned NULL", PC.n);
    model_add(s, (uint8_t*)launder(p), PC.n, self, "PC"); PC.ring.push_back(s);
    if (r % every == 0) { AreaCount ac; mi_heap_visit_blocks(mi_heap_get_backing(), false, &area_cb, &ac); PC.samples.push_back(ac.areas); if (ac.areas > S.r->counters[C_AREAS_MAX]) S.r->counters[C_AREAS_MAX] = ac.areas; }
  }
  // everything handed over has been freed by the consumer: what it freed must be reusable by the producer (same probe as in the keeper rounds)
  probe_reuse(self, mi_heap_get_backing(), PC.n, S.vt[self].cur_op);
  PC.prod_done = true;
  // bounded memory: the number of areas (pages) of the producing heap must not grow with the number of rounds
  size_t h = PC.samples.size() / 2, m1 = 0, m2 = 0; for (size_t i = 0; i < PC.samples.size(); i++) { if (i < h) m1 = std::max(m1, PC.samples[i]); else m2 = std::max(m2, PC.samples[i]); }
  size_t pn = PC.n + 16;   // (padding in debug builds moves a size to the next class / page kind)
  size_t per_page = (pn <= 8*KiB ? 64*KiB / pn : (pn <= 64*KiB ? 512*KiB / pn : 1)); if (per_page < 1) per_page = 1;
  // remote frees of a page in the full queue wait on the heap's delayed list until the owner's next clean-up, which happens every 100 generic
  // allocations: up to ~100 freed pages can be pending on top of the live ones. A lost page per hand-off would add one area per round.
  size_t bound = (PC.cap + per_page - 1) / per_page + 100 + 32;
  if (m2 > bound || m1 > bound) fail_now("pc-bound", "producer/consumer (%zu rounds, <= %zu live blocks of %zu bytes): %zu areas in use, bound %zu (live pages + one clean-up period + slack)", PC.rounds, PC.cap, PC.n, std::max(m1, m2), bound);
  if (PC.rounds >= 600) flag(F_PC_RUN);
}
static void pc_consumer(int self, const Op&) {
  for (;;) {
    S.vt[self].waiting = true; S.vt[self].can_go = []() { return !PC.ring.empty() || PC.prod_done; }; while (PC.ring.empty()) { if (PC.prod_done || !others_alive(self)) { S.vt[self].waiting = false; return; } vt_wait_yield(); } S.vt[self].waiting = false;
    int s = PC.ring.front(); PC.ring.pop_front(); Slot& b = M.slots[s]; if (!b.live) continue;
    model_check(s, "consumer"); uint8_t* p = b.p; flag(F_REMOTE_FREE); model_remove(s);
    call_begin(); mi_free(p); call_end();
  }
}

// ---------------------------------------------------------------- C08(c): remotely freed blocks are reusable by the owner (keeper rounds)
// The owner (thread 0) allocates from its own heap and posts blocks to helper threads that free them; "keeper" blocks pin pages. At a
// quiescent point (nothing posted, every helper idle) the reuse probe reads, from the heap's own area report, how many more blocks fit
// in the pages the heap already has, allocates exactly that many, and requires that the heap did not need a fresh page for them.
extern "C" void vf_dump_heap(mi_heap_t*) __attribute__((weak));   // tools/dbg_dump.c (manual triage only)
struct KRState { std::deque<int> q; bool stop = false; bool posted[NSLOT] = {}; };
static KRState KR;
struct AreaInfo { size_t areas = 0, used = 0, room = 0; const uint8_t* ref = nullptr; size_t ref_used = 0, ref_cap = 0; size_t bsize = 0; bool uniform = true; };
static bool kr_area_cb(const mi_heap_t*, const mi_heap_area_t* a, void* block, size_t, void* arg) {
  if (block) return true; AreaInfo* I = (AreaInfo*)arg; I->areas++; I->used += a->used; size_t cap = a->full_block_size ? a->reserved / a->full_block_size : 0; if (cap > a->used) I->room += cap - a->used;
  if (I->bsize == 0) I->bsize = a->full_block_size; else if (I->bsize != a->full_block_size) I->uniform = false;
  if (I->ref && I->ref >= (const uint8_t*)a->blocks && I->ref < (const uint8_t*)a->blocks + a->reserved) { I->ref_used = a->used; I->ref_cap = cap; }
  return true;
}
static mi_heap_t* kr_heap(int self, const Op& op) { int h = (int)op.num("h", 1); if (h == 0) return mi_heap_get_backing(); return (h > 0 && h < 4 && M.heap_alive[self][h]) ? M.heaps[self][h] : nullptr; }
static bool kr_quiet(int self) { if (!KR.q.empty()) return false; for (int t = 0; t < S.nthreads; t++) if (t != self && S.vt[t].state != 2 && !(S.vt[t].waiting && !(S.vt[t].can_go && S.vt[t].can_go()))) return false; return true; }
static bool kr_sync(int self) {   // wait until nothing is posted and every helper is idle
  S.vt[self].waiting = true; S.vt[self].can_go = [self]() { return kr_quiet(self); };
  while (!kr_quiet(self)) { if (!others_alive(self)) { S.vt[self].waiting = false; return false; } vt_wait_yield(); }
  S.vt[self].waiting = false; return true;
}
static void kr_serve(int self) {
  for (;;) {
    S.vt[self].waiting = true; S.vt[self].can_go = []() { return !KR.q.empty() || KR.stop; };
    while (KR.q.empty()) { if (KR.stop || !others_alive(self)) { S.vt[self].waiting = false; return; } vt_wait_yield(); }
    S.vt[self].waiting = false;
    int s = KR.q.front(); KR.q.pop_front(); Slot& b = M.slots[s]; KR.posted[s] = false; if (!b.live) continue;
    model_check(s, "helper"); uint8_t* p = b.p; flag(F_REMOTE_FREE); model_remove(s);
    call_begin(); mi_free(p); call_end();
  }
}
static void kr_post(int self, const Op& op) {
  mi_heap_t* hp = kr_heap(self, op); int lo, hi; if (op.has("s")) { lo = (int)op.num("s"); hi = lo + 1; } else { lo = (int)op.num("lo", 0); hi = (int)op.num("hi", NSLOT); }
  int keep = op.has("keep") ? (int)op.num("keep") : -1, keep2 = op.has("keep2") ? (int)op.num("keep2") : -1; if (lo < 0) lo = 0; if (hi > NSLOT) hi = NSLOT;
  bool looked = false;
  for (int s = lo; s < hi; s++) { Slot& b = M.slots[s]; if (!b.live || b.by != self || KR.posted[s] || s == keep || s == keep2) continue;
    if (!looked && hp) { looked = true; AreaInfo I; I.ref = b.p; mi_heap_visit_blocks(hp, false, &kr_area_cb, &I); if (I.ref_cap > 0 && I.ref_used >= I.ref_cap) flag(F_REMOTE_FULL); }
    KR.posted[s] = true; KR.q.push_back(s); }
}
static void kr_fill(int self, const Op& op, int opi) {
  mi_heap_t* hp = kr_heap(self, op); if (!hp) return; int ref = (int)op.num("ref"); if (ref < 0 || ref >= NSLOT || !M.slots[ref].live) return;
  size_t n = op.num("n", 1000), max = op.num("max", 80), extra = op.num("extra", 0), count = 0; int s = (int)op.num("base", 0); if (s < 0) s = 0;
  for (;;) {
    AreaInfo I; I.ref = M.slots[ref].p; mi_heap_visit_blocks(hp, false, &kr_area_cb, &I); if (I.ref_cap == 0) break;
    if (I.ref_used >= I.ref_cap) { if (extra == 0) break; extra--; }
    if (count >= max) break;
    while (s < NSLOT && M.slots[s].live) s++; if (s >= NSLOT) break;
    call_begin(); void* p = mi_heap_malloc(hp, n); call_end(); if (!p) fail_now("null", "thread %d op#%d malloc(%zu) returned NULL", self, opi, n);
    model_add(s, (uint8_t*)launder(p), n, self, "FILL"); count++;
  }
}
static void kr_probe(int self, const Op& op, int opi) {
  mi_heap_t* hp = kr_heap(self, op); if (!hp) return; size_t n = op.num("n", 1000); if (n < 1) n = 1;
  probe_reuse(self, hp, n, opi);
}
static void probe_reuse(int self, mi_heap_t* hp, size_t n, int opi) {
  if (!kr_sync(self)) return;
  // the owner collects first: blocks freed into a full page wait on the heap's delayed list, which an allocating owner only drains every
  // 100 generic allocations; a collect drains it at once (without it, taking a fresh page in the meantime is allowed behaviour)
  call_begin(); mi_heap_collect(hp, false); call_end();
  AreaInfo I0; mi_heap_visit_blocks(hp, false, &kr_area_cb, &I0); if (I0.room == 0 || I0.room > 20000 || !I0.uniform) return;   // (one size class per heap, or no verdict)
  if (vf_dump_heap && getenv("VF_DUMP_AT_PROBE")) vf_dump_heap(hp);
  std::vector<uint8_t*> got; got.reserve(I0.room);
  for (size_t i = 0; i < I0.room; i++) { call_begin(); uint8_t* p = (uint8_t*)launder(mi_heap_malloc(hp, n)); call_end(); if (!p) fail_now("null", "thread %d op#%d probe malloc(%zu) returned NULL", self, opi, n); p[0] = 0x5A; p[n - 1] = 0xA5; got.push_back(p); }
  AreaInfo I1; mi_heap_visit_blocks(hp, false, &kr_area_cb, &I1);
  if (!I1.uniform || I1.bsize != I0.bsize) { for (uint8_t* p : got) { call_begin(); mi_free(p); call_end(); } return; }   // the probe size belongs to another size class: no verdict
  flag(F_REUSE_PROBE);
  if (I1.areas > I0.areas && vf_dump_heap) vf_dump_heap(hp);
  if (I1.areas > I0.areas) fail_now("not-reused", "thread %d op#%d: no free is in flight and the heap reports room for %zu more blocks of %zu bytes in its %zu pages (%zu blocks in use), yet allocating %zu such blocks made it take %zu fresh page(s): blocks freed by other threads did not become reusable by the owner", self, opi, I0.room, n, I0.areas, I0.used, I0.room, I1.areas - I0.areas);
  for (uint8_t* p : got) { if (p[0] != 0x5A || p[n - 1] != 0xA5) fail_now("contents", "probe block %p changed", p); call_begin(); mi_free(p); call_end(); }
}
// k allocations of another (non-small) size from the same heap, each freed at once: every one takes the generic path, whose 100th call is what
// drains the heap's delayed-free list for an owner that never collects
static void kr_generic(int self, const Op& op, int opi) {
  mi_heap_t* hp = kr_heap(self, op); if (!hp) return; size_t k = op.num("k", 100), n = op.num("n", 5000); if (k > 400) k = 400; if (n <= 1024) n = 5000;
  for (size_t i = 0; i < k; i++) { call_begin(); void* p = mi_heap_malloc(hp, n); call_end(); if (!p) fail_now("null", "thread %d op#%d malloc(%zu) returned NULL", self, opi, n); ((uint8_t*)p)[0] = 1; call_begin(); mi_free(p); call_end(); }
}
static void kr_quiesce_heap(int self, const Op& op) {
  mi_heap_t* hp = kr_heap(self, op); if (!hp) return; if (!kr_sync(self)) return;
  for (auto& kv : M.live) if (M.slots[kv.second].by == self) return;
  call_begin(); mi_heap_collect(hp, true); call_end();
  AreaInfo I; mi_heap_visit_blocks(hp, false, &kr_area_cb, &I);
  if (I.used != 0 || I.areas != 0) fail_now("lost-blocks", "thread %d: all blocks of its heap were freed (most by other threads) and the owner force-collected it, but the heap still reports %zu used block(s) in %zu page(s)", self, I.used, I.areas);
  flag(F_QUIESCENT_EMPTY);
}

// ---------------------------------------------------------------- C14(a): raw bitmap scripts
extern "C" bool _mi_bitmap_try_find_from_claim_across(size_t* bitmap, size_t bitmap_fields, size_t start_field_idx, size_t count, size_t* bitmap_idx);
extern "C" bool _mi_bitmap_unclaim_across(size_t* bitmap, size_t bitmap_fields, size_t count, size_t bitmap_idx);
struct BMState { size_t fields = 0; alignas(64) size_t map[8]; size_t init[8]; std::vector<bool> ref; struct Held { bool held = false; size_t idx = 0, count = 0; }; Held held[64]; bool used = false; };
static BMState BM;
static void bm_setup(const Op& op) {
  BM.fields = op.num("fields", 2); if (BM.fields < 1) BM.fields = 1; if (BM.fields > 6) BM.fields = 6; BM.used = true; BM.ref.assign(BM.fields * 64, false);
  for (size_t f = 0; f < BM.fields; f++) { char key[8]; snprintf(key, sizeof key, "p%zu", f); size_t v = op.num(key, 0); BM.map[f] = BM.init[f] = v; for (int b = 0; b < 64; b++) if (v & ((size_t)1 << b)) BM.ref[f * 64 + (size_t)b] = true; }
  g_global_quiescence = false;
}
static void bm_claim(int self, const Op& op) {
  if (!BM.used) return; int k = (int)op.num("k"); if (k < 0 || k >= 64 || BM.held[k].held) return; size_t count = op.num("count", 1); if (count < 1) count = 1; if (count > BM.fields * 64) return;
  size_t idx = 0; call_begin(); bool ok = _mi_bitmap_try_find_from_claim_across(BM.map, BM.fields, op.num("start", 0) % BM.fields, count, &idx); call_end();
  if (!ok) return;
  if (idx + count > BM.fields * 64) fail_now("bitmap-range", "thread %d: claim of %zu bits returned index %zu beyond the map (%zu bits)", self, count, idx, BM.fields * 64);
  for (size_t i = idx; i < idx + count; i++) { if (BM.ref[i]) fail_now("bitmap-overlap", "thread %d op#%d: claim of %zu bits at %zu covers bit %zu which is already taken (pre-claimed or held by another claim)", self, S.vt[self].cur_op, count, idx, i); BM.ref[i] = true; }
  if ((idx % 64) + count > 64) flag(F_BITMAP_CROSS);
  BM.held[k].held = true; BM.held[k].idx = idx; BM.held[k].count = count;
}
static void bm_release(int self, const Op& op) {
  if (!BM.used) return; int k = (int)op.num("k"); if (k < 0 || k >= 64) return;
  S.vt[self].waiting = true; S.vt[self].can_go = [k]() { return BM.held[k].held; }; while (!BM.held[k].held) { if (!others_alive(self)) { S.vt[self].waiting = false; return; } vt_wait_yield(); } S.vt[self].waiting = false;
  size_t idx = BM.held[k].idx, count = BM.held[k].count; BM.held[k].held = false;
  for (size_t i = idx; i < idx + count; i++) BM.ref[i] = false;
  call_begin(); bool all = _mi_bitmap_unclaim_across(BM.map, BM.fields, count, idx); call_end();
  if (!all) fail_now("bitmap-unclaim", "thread %d: releasing %zu bits at %zu reports that not all of them were set", self, count, idx);
}
static void bm_final() {
  if (!BM.used) return;
  for (size_t f = 0; f < BM.fields; f++) { size_t want = 0; for (int b = 0; b < 64; b++) if (BM.ref[f * 64 + (size_t)b]) want |= (size_t)1 << b;
    if (BM.map[f] != want) fail_now("bitmap-residue", "after all threads finished, field %zu is 0x%zx but the claims still held (plus the pre-claimed bits) give 0x%zx: a failed or rolled-back claim left bits behind (or took some away)", f, BM.map[f], want); }
}

// ---------------------------------------------------------------- C14(b): shared arena
struct ARState { bool used = false; uint8_t* start = nullptr; size_t size = 0; mi_arena_id_t id = 0; uint8_t* area = nullptr; size_t area_size = 0; mi_heap_t* heap[MAXT] = {}; };
static ARState AR;
static void ar_setup(const Op& op) {
  size_t size = op.num("size", (size_t)3072 * MiB); uint8_t* base = (uint8_t*)mmap(nullptr, size + 64*MiB, PROT_NONE, MAP_PRIVATE | MAP_ANONYMOUS | MAP_NORESERVE, -1, 0); if (base == MAP_FAILED) return;
  uint8_t* st = (uint8_t*)(((uintptr_t)base + 32*MiB - 1) & ~(uintptr_t)(32*MiB - 1));
  if (!mi_manage_os_memory_ex(st, size, false, false, true, -1, true, &AR.id)) return;
  AR.used = true; AR.start = st; AR.size = size; AR.area = (uint8_t*)mi_arena_area(AR.id, &AR.area_size);
}
static void ar_alloc(int self, const Op& op) {
  if (!AR.used) return; int s = (int)op.num("s"); if (s < 0 || s >= NSLOT || M.slots[s].live) return; size_t n = op.num("n");
  if (!AR.heap[self]) { call_begin(); AR.heap[self] = mi_heap_new_in_arena(AR.id); call_end(); if (!AR.heap[self]) return; }
  call_begin(); uint8_t* p = (uint8_t*)launder(mi_heap_malloc(AR.heap[self], n)); call_end();
  if (!p) return;   // a multi-block request may not fit (fragmentation): allowed
  if (p < AR.area || p + n > AR.area + AR.area_size) fail_now("outside-arena", "thread %d: block %p(+%zu) from a heap bound to the arena lies outside [%p,+%zu)", self, p, n, AR.area, AR.area_size);
  size_t b0 = (size_t)(p - AR.area) / (32*MiB), b1 = (size_t)(p + n - 1 - AR.area) / (32*MiB); if (b0 / 64 != b1 / 64) flag(F_BITMAP_CROSS);
  // sparse model entry (only the ends of the block are touched)
  size_t u = mi_usable_size(p); uintptr_t lo = (uintptr_t)p, hi = lo + u; auto it = M.live.upper_bound(lo);
  if (it != M.live.end() && it->first < hi) fail_now("overlap", "thread %d: arena block [%p,+%zu) overlaps live slot %d", self, p, u, it->second);
  if (it != M.live.begin()) { --it; if (it->first + M.slots[it->second].u > lo) fail_now("overlap", "thread %d: arena block [%p,+%zu) overlaps live slot %d", self, p, u, it->second); }
  Slot& b = M.slots[s]; b.p = p; b.n = n; b.u = (u < 128 ? u : 128); b.key = M.next_key++; b.live = true; b.by = self; M.live[lo] = s;
  for (size_t i = 0; i < b.u; i++) p[i] = pat_byte(b.key, i); if (n > 128) p[n - 1] = 0x77; S.r->counters[C_ALLOCS]++;
}
static void ar_final() {
  if (!AR.used) return;
  // everything was freed: after a forced collect the arena can be allocated completely again (one-block requests)
  mi_collect(true); vf_clock_advance(1000); mi_collect(true);
  mi_heap_t* hp = mi_heap_new_in_arena(AR.id); if (!hp) return; size_t blocks = AR.area_size / (32*MiB), got = 0; std::vector<void*> ps;
  for (size_t i = 0; i < blocks + 2; i++) { void* p = mi_heap_malloc(hp, 24*MiB); if (!p) break; if ((uint8_t*)p < AR.area || (uint8_t*)p >= AR.area + AR.area_size) fail_now("outside-arena", "final probe: block %p outside the arena", p); ps.push_back(p); got++; }
  for (void* p : ps) mi_free(p);
  mi_heap_delete(hp);
  if (got != blocks) fail_now("arena-residue", "after every block was freed and a forced collect, the arena of %zu blocks accepts only %zu one-block allocations: something stayed reserved", blocks, got);
}

static void special_setup(const Case& c) {
  for (auto& op : c) { if (op.name == "BM") bm_setup(op); else if (op.name == "AR") ar_setup(op); else if (op.name == "cfg" && op.has("noquiesce")) g_global_quiescence = false; }
}
static void special_final() { bm_final(); if (AR.used) { for (int t = 0; t < MAXT; t++) AR.heap[t] = nullptr; ar_final(); g_global_quiescence = false; } }
static void special_op(int self, const Op& op, int opi) {
  const std::string& nm = op.name;
  if (nm == "PCP") pc_producer(self, op); else if (nm == "PCC") pc_consumer(self, op);
  else if (nm == "BC") bm_claim(self, op); else if (nm == "BR") bm_release(self, op);
  else if (nm == "AA") ar_alloc(self, op);
  else if (nm == "T") vf_clock_advance((long)op.num("ms", 1));
  else if (nm == "SERVE") kr_serve(self); else if (nm == "POST") kr_post(self, op); else if (nm == "FILL") kr_fill(self, op, opi); else if (nm == "SY") kr_sync(self);
  else if (nm == "GN") kr_generic(self, op, opi);
  else if (nm == "RP") kr_probe(self, op, opi); else if (nm == "QH") kr_quiesce_heap(self, op); else if (nm == "STOP") KR.stop = true;
}

// ---------------------------------------------------------------- generators for the special programs
static Case gen_pc_program(Chooser& ch) {
  Case c; c.push_back(Op("opt").s("name", "generic_collect").u("v", 1000000));
  static const std::vector<size_t> sizes = { 16, 48, 200, 1000, 8*KiB, 64*KiB, 100*KiB }; static const std::vector<size_t> lives = { 1, 4, 16, 64 };
  size_t rounds = (size_t)ch.range(600, 2500); size_t n = ch.of(sizes), live = ch.of(lives);
  if (ch.chance(1, 3)) { size_t per = (n <= 8*KiB ? 64*KiB / (n + 16) : (n <= 64*KiB ? 512*KiB / n : 1)); if (per >= 2 && per <= 200) live = per + ch.range(0, 2); }   // about one page plus one block in flight
  if (ch.chance(1, 6)) c.push_back(Op("opt").s("name", "target_segments_per_thread").u("v", ch.chance(1, 2) ? 2 : 4));
  c.push_back(Op("PCP").u("t", 0).u("rounds", rounds).u("live", live).u("n", n));
  c.push_back(Op("PCC").u("t", 1));
  c.push_back(Op("J").u("t", 0)); c.push_back(Op("Q").u("t", 0));
  for (size_t i = 0; i < c.size(); i++) c[i].u("i", i);
  return c;
}
static Case gen_keeper_program(Chooser& ch) {
  Case c; if (ch.chance(1, 4)) c.push_back(Op("opt").s("name", "generic_collect").u("v", ch.chance(1, 2) ? 20 : 1000000));
  static const std::vector<size_t> sizes = { 1000, 1000, 2000, 3000, 4000, 8000, 12000, 20000, 40000, 60000, 100000 };
  size_t n = ch.of(sizes); int helpers = (int)ch.range(1, 2); const int W = 96, regions = NSLOT / W; int R = (int)ch.range(3, 12), K = (int)ch.range(1, (uint64_t)std::min(R, regions - 1));
  c.push_back(Op("HN").u("t", 0).u("h", 1));
  for (int t = 1; t <= helpers; t++) c.push_back(Op("SERVE").u("t", (uint64_t)t));
  auto O = [&](Op op) { op.u("t", 0); c.push_back(op); };
  // the heap may be deleted half-way (its pages, some of them in the full queue, move to the backing heap: h=0 from then on)
  uint64_t hcur = 1; int rdel = ch.chance(1, 3) ? (int)ch.range(0, (uint64_t)R - 1) : -1;
  if (ch.chance(1, 6)) c.insert(c.begin(), Op("opt").s("name", "target_segments_per_thread").u("v", ch.chance(1, 2) ? 2 : 4));
  if (ch.chance(1, 2)) {   // prologue: the only block of the only page of the class is freed remotely and handled by the owner (the page is retired, not freed, and used again below)
    int s = NSLOT - 1; O(Op("A").u("s", (uint64_t)s).u("n", n).u("h", 1)); O(Op("POST").u("s", (uint64_t)s).u("h", 1)); O(Op("SY"));
    if (ch.chance(1, 3)) O(Op("HC").u("h", 1).u("force", 0)); else O(Op("GN").u("h", 1).u("k", ch.range(100, 130)).u("n", ch.chance(1, 2) ? 5000 : 70000)); }
  for (int r = 0; r < R; r++) {
    int base = (r % regions) * W; int a0 = (int)ch.range(2, 8); int keeper = base + (int)ch.pick((size_t)a0);
    for (int i = 0; i < a0; i++) O(Op("A").u("s", (uint64_t)(base + i)).u("n", n).u("h", hcur));
    int ne = (int)ch.pick(4); if (ne == 3) ne = 1;
    for (int e = 0; e < ne; e++) { int s = base + (int)ch.pick((size_t)a0); if (s != keeper) O(Op("POST").u("s", (uint64_t)s).u("h", hcur)); }
    if (ne > 0 && ch.chance(3, 4)) O(Op("SY"));
    if (ch.chance(1, 3)) O(Op("HC").u("h", hcur).u("force", 0)); else if (ch.chance(1, 4)) O(Op("GN").u("h", hcur).u("k", ch.range(30, 120)).u("n", 5000));
    O(Op("FILL").u("ref", (uint64_t)keeper).u("base", (uint64_t)base).u("max", (uint64_t)(W - 12)).u("extra", ch.pick(4)).u("n", n).u("h", hcur));
    // exactly one remote free into a page that is full with every block live, then the reuse probe: the page must come back from the full queue
    if (ch.chance(1, 3)) { int s1 = base + (int)ch.pick((size_t)a0); if (s1 != keeper) { O(Op("POST").u("s", (uint64_t)s1).u("h", hcur)); O(Op("SY")); if (ch.chance(1, 2)) O(Op("HC").u("h", hcur).u("force", 0)); O(Op("RP").u("h", hcur).u("n", n)); } }
    if (r == rdel && hcur == 1) { O(Op("HD").u("h", 1)); hcur = 0; }
    Op post("POST"); post.u("lo", (uint64_t)base).u("hi", (uint64_t)(base + W)).u("keep", (uint64_t)keeper).u("h", hcur); if (ch.chance(1, 4)) post.u("keep2", (uint64_t)(base + (int)ch.pick((size_t)W - 12))); O(post);
    if (r >= K) { int ob = ((r - K) % regions) * W; O(Op("POST").u("lo", (uint64_t)ob).u("hi", (uint64_t)(ob + W)).u("h", hcur)); }
    if (ch.chance(3, 4)) O(Op("SY"));
    if (ch.chance(1, 3)) O(Op("HC").u("h", hcur).u("force", ch.chance(1, 8)));
    if (ch.chance(1, 2) || r == R - 1) O(Op("RP").u("h", hcur).u("n", n));
  }
  O(Op("POST").u("lo", 0).u("hi", (uint64_t)NSLOT).u("h", hcur)); O(Op("SY")); O(Op("QH").u("h", hcur)); O(Op("STOP")); O(Op("J"));
  for (size_t i = 0; i < c.size(); i++) c[i].u("i", i);
  return c;
}
static Case gen_bitmap_program(Chooser& ch) {
  Case c; size_t fields = (size_t)ch.range(2, 4); Op bm("BM"); bm.u("fields", fields);
  for (size_t f = 0; f < fields; f++) { size_t v = 0; unsigned k = (unsigned)ch.pick(5);
    if (k == 0) v = 0; else if (k == 1) v = ~(size_t)0 << ch.range(1, 63); /* left-over style: top bits taken */ else if (k == 2) v = ((size_t)1 << ch.range(0, 40)) - 1; /* low bits taken */
    else if (k == 3) v = ch.bits(8) & ch.bits(8) & ch.bits(8); else v = (size_t)1 << ch.range(0, 63);
    char key[8]; snprintf(key, sizeof key, "p%zu", f); bm.u(key, v); }
  c.push_back(bm); c.push_back(Op("cfg").u("noquiesce", 1));
  int T = (int)ch.range(2, 3); int nk = (int)ch.range(3, 12); int rank = 0; struct Ev { int rank; Op op; }; std::vector<Ev> ev;
  static const std::vector<size_t> counts = { 1, 2, 3, 3, 4, 5, 8, 17, 31, 33, 60, 63, 64, 65, 70, 127, 128, 129 };
  for (int k = 0; k < nk; k++) { int t = (int)ch.pick((size_t)T); size_t cnt = ch.of(counts); if (cnt > fields * 64 - 1) cnt = 3;
    ev.push_back({ rank++, Op("BC").u("t", (uint64_t)t).u("k", (uint64_t)k).u("count", cnt).u("start", ch.pick(fields)) });
    if (ch.chance(4, 5)) ev.push_back({ rank + (int)ch.range(1, 6), Op("BR").u("t", (uint64_t)ch.pick((size_t)T)).u("k", (uint64_t)k) }); }
  std::stable_sort(ev.begin(), ev.end(), [](const Ev& a, const Ev& b) { return a.rank < b.rank; });
  for (auto& e : ev) c.push_back(e.op);
  for (size_t i = 0; i < c.size(); i++) c[i].u("i", i);
  return c;
}
static Case gen_arena_program(Chooser& ch) {
  Case c; c.push_back(Op("AR").u("size", (size_t)ch.range(66, 130) * 32*MiB));
  static const std::vector<long> pd = { 0, 1, 10 }; c.push_back(Op("opt").s("name", "purge_delay").i("v", ch.of(pd)));
  if (ch.chance(1, 3)) c.push_back(Op("opt").s("name", "purge_decommits").u("v", 0));   // purge by reset: the purge path that does not decommit
  int T = (int)ch.range(2, 3); int ns = (int)ch.range(4, 14); int rank = 0; struct Ev { int rank; Op op; }; std::vector<Ev> ev;
  for (int s = 0; s < ns; s++) { int t = (int)ch.pick((size_t)T); size_t n = ch.chance(1, 3) ? (size_t)ch.range(1, 4000) : (size_t)(ch.chance(1, 4) ? ch.range(3, 5) : ch.range(1, 2)) * 32*MiB - 2*MiB - (size_t)ch.range(0, 8) * MiB;
    ev.push_back({ rank++, Op("AA").u("t", (uint64_t)t).u("s", (uint64_t)s).u("n", n) });
    ev.push_back({ rank + (int)ch.range(1, 8), Op("F").u("t", (uint64_t)ch.pick((size_t)T)).u("s", (uint64_t)s) });
    if (ch.chance(1, 4)) ev.push_back({ rank++, Op("T").u("t", (uint64_t)t).u("ms", ch.range(1, 200)) });
    if (ch.chance(1, 5)) ev.push_back({ rank++, Op("C").u("t", (uint64_t)t).u("force", ch.chance(1, 2)) }); }
  std::stable_sort(ev.begin(), ev.end(), [](const Ev& a, const Ev& b) { return a.rank < b.rank; });
  for (auto& e : ev) c.push_back(e.op);
  c.push_back(Op("J").u("t", 0));
  for (size_t i = 0; i < c.size(); i++) c[i].u("i", i);
  return c;
}
