// `pure`: size-class and address arithmetic (C16). Includes mimalloc's single translation unit so that `static` functions and
// tables are callable. Exhaustive enumeration of the finite domains + seeded random 64-bit operands against reference arithmetic
// (unsigned __int128 / naive loops), and address recovery on real blocks.
//   pure --tier quick|thorough --seed N      prints a JSON summary on stdout (violations carry a replay text)
//   pure --replay FILE                       re-checks one recorded input; exit 1 when it still fails
#include VF_REPO_STATIC_C
#include <stdio.h>
#include <stdlib.h>
#include <string.h>
#include <inttypes.h>

typedef unsigned __int128 u128;
static uint64_t rng_s;
static uint64_t rnd(void) { uint64_t z = (rng_s += 0x9E3779B97F4A7C15ull); z = (z ^ (z >> 30)) * 0xBF58476D1CE4E5B9ull; z = (z ^ (z >> 27)) * 0x94D049BB133111EBull; return z ^ (z >> 31); }
static size_t rndn(size_t n) { return n ? (size_t)(rnd() % n) : 0; }

static long n_eval, n_nontrivial, n_viol; static char samples[6][200]; static int n_samples; static char viol[8][400]; static char viol_replay[8][200];
static long cls[16]; static const char* cls_names[16] = { "bin_sizes", "good_size_vs_usable", "slice_bins", "fast_divide", "block_addr_small_medium", "block_addr_large", "align_up_down", "divide_up", "mul_overflow", "bit_ops", "wsize_clamp", "boundary_sizes", 0 };
static int replaying;
// dedupe set for generated (random) operands: distinct_nontrivial counts a generated input only once
#define HSET_BITS 22
static uint64_t* hset;
static int hset_new(uint64_t a, uint64_t b, uint64_t tag) { if (!hset) hset = (uint64_t*)calloc((size_t)1 << HSET_BITS, 8); uint64_t h = (a * 0x9E3779B97F4A7C15ull) ^ (b * 0xC2B2AE3D27D4EB4Full) ^ (tag * 0x165667B19E3779F9ull); h ^= h >> 29; if (h == 0) h = 1; size_t i = (size_t)(h & (((uint64_t)1 << HSET_BITS) - 1)); for (int k = 0; k < 64; k++) { if (hset[i] == h) return 0; if (hset[i] == 0) { hset[i] = h; return 1; } i = (i + 1) & ((((size_t)1) << HSET_BITS) - 1); } return 0; }

static void sample(const char* s) { if (n_samples < 6) snprintf(samples[n_samples++], 200, "%s", s); }
static void violation(const char* replay, const char* fmt, ...) {
  va_list ap; va_start(ap, fmt); char buf[400]; vsnprintf(buf, sizeof buf, fmt, ap); va_end(ap);
  if (n_viol < 8) { snprintf(viol[n_viol], 400, "%s", buf); snprintf(viol_replay[n_viol], 200, "%s", replay); }
  n_viol++; if (replaying) printf("FAIL clause=%s\n", buf);
}

// ---- individual checks (each usable from --replay)
static size_t bin_size_of(size_t bin) { return _mi_heap_empty.pages[bin].block_size; }
static size_t prev_bin_for_monotone;
static void check_size(size_t n, int nontriv) {   // n: size as seen by mi_bin (no padding added here)
  char rp[200]; snprintf(rp, sizeof rp, "size %zu", n); n_eval++; cls[0]++;
  size_t b = _mi_bin(n);
  if (b == 0 || b > MI_BIN_HUGE) { violation(rp, "bin-range: _mi_bin(%zu)=%zu", n, b); return; }
  if (n <= MI_MEDIUM_OBJ_SIZE_MAX) {
    if (b >= MI_BIN_HUGE) { violation(rp, "bin-huge: _mi_bin(%zu) is the huge bin although the size is at most MI_MEDIUM_OBJ_SIZE_MAX", n); return; }
    size_t bs = bin_size_of(b);
    if (bs < n) violation(rp, "bin-too-small: size %zu -> bin %zu of block size %zu", n, b, bs);
    if (n > 64 && bs - n > n / 4) violation(rp, "bin-waste: size %zu -> block size %zu wastes more than 25%%", n, bs);
    if ((bs % 8) != 0 || (bs >= 16 && (bs % 16) != 0 && bs > 8)) { if (bs != 8) violation(rp, "bin-alignment: block size %zu of bin %zu is not a multiple of 16", bs, b); }
  } else if (b != MI_BIN_HUGE) violation(rp, "bin-not-huge: _mi_bin(%zu)=%zu for a size above MI_MEDIUM_OBJ_SIZE_MAX", n, b);
  if (nontriv) n_nontrivial++;
}
static void check_good_size(size_t n, int real_alloc) {
  char rp[200]; snprintf(rp, sizeof rp, "good %zu %d", n, real_alloc); n_eval++; cls[1]++;
  size_t g = mi_good_size(n);
  if (g < n) violation(rp, "good-size-small: mi_good_size(%zu)=%zu", n, g);
#if !MI_PADDING
  if (mi_good_size(g) != g) violation(rp, "good-size-idempotent: mi_good_size(%zu)=%zu but mi_good_size(%zu)=%zu", n, g, g, mi_good_size(g));
  if (real_alloc && n <= MI_MEDIUM_OBJ_SIZE_MAX) { void* p = mi_malloc(n); if (p) { size_t u = mi_usable_size(p); if (u != g) violation(rp, "good-size-usable: mi_good_size(%zu)=%zu but mi_usable_size(mi_malloc(%zu))=%zu", n, g, n, u); mi_free(p); } }
#else
  // with padding compiled in, good_size adds the padding before choosing the class; usable size is exact: only >= is meaningful
  if (real_alloc && n <= MI_MEDIUM_OBJ_SIZE_MAX) { void* p = mi_malloc(n); if (p) { size_t u = mi_usable_size(p); if (u < n) violation(rp, "usable-small: mi_usable_size(mi_malloc(%zu))=%zu", n, u); mi_free(p); } }
#endif
}
// the same relation under allocation histories: which pages exist and which one heads its queue must not influence the class a request is served from
// (mode 0: descending sweep keeping one live block per class; mode 1: ascending by class, each class first allocated right after the next larger one;
//  mode 2: seeded random order with a random live set)
#if MI_PADDING
#define VF_EXACT_USABLE 0
#else
#define VF_EXACT_USABLE 1
#endif
static void check_good_size_history(int mode, uint64_t seed) {
  char rp[200]; snprintf(rp, sizeof rp, "hist %d %llu", mode, (unsigned long long)seed); uint64_t saved = rng_s; rng_s = seed * 0x9E3779B97F4A7C15ull + 777;
  static void* keep[20000]; size_t nk = 0; size_t maxn = 16 * 1024; long bad = 0;
  #define ONE(n) do { size_t n_ = (n); void* p_ = mi_malloc(n_); n_eval++; cls[1]++; if (p_) { size_t u_ = mi_usable_size(p_), g_ = mi_good_size(n_); \
      if (u_ < n_ || (VF_EXACT_USABLE && u_ != g_)) { if (bad++ < 3) violation(rp, "good-size-usable-history: after other allocations mi_usable_size(mi_malloc(%zu))=%zu but mi_good_size(%zu)=%zu", n_, u_, n_, g_); } \
      if (nk < 20000 && keep_it) keep[nk++] = p_; else mi_free(p_); } } while (0)
  if (mode == 0) { for (size_t n = maxn; n >= 1; n--) { int keep_it = (bin_size_of(_mi_bin(n)) == n); ONE(n); } }
  else if (mode == 1) { size_t c = 8; while (c < maxn) { size_t next = bin_size_of(_mi_bin(c + 1)); int keep_it = 1; ONE(next); for (size_t d = 0; d < 16 && d < c; d++) { keep_it = (d == 0); ONE(c - d); } c = next; } }
  else { for (int i = 0; i < 30000; i++) { size_t n = (rndn(4) == 0 ? bin_size_of(_mi_bin(1 + rndn(maxn))) - rndn(9) : 1 + rndn(maxn)); if (n == 0 || n > maxn) n = 1; int keep_it = (rndn(3) == 0); ONE(n); if (nk > 0 && rndn(4) == 0) { size_t k = rndn(nk); mi_free(keep[k]); keep[k] = keep[--nk]; } } }
  #undef ONE
  for (size_t i = 0; i < nk; i++) mi_free(keep[i]);
  n_nontrivial += 1; rng_s = saved;
}
static void check_slice_count(size_t c) {
  char rp[200]; snprintf(rp, sizeof rp, "slices %zu", c); n_eval++; cls[2]++;
  size_t b = mi_slice_bin8(c);
  if (b > MI_SEGMENT_BIN_MAX) { violation(rp, "slice-bin-range: mi_slice_bin8(%zu)=%zu > %d", c, b, MI_SEGMENT_BIN_MAX); return; }
  if (c > 0 && mi_slice_bin8(c - 1) > b) violation(rp, "slice-bin-monotone: bin(%zu)=%zu > bin(%zu)=%zu", c - 1, mi_slice_bin8(c - 1), c, b);
  if (tld_main.segments.spans[b].slice_count < c) violation(rp, "slice-bin-too-small: %zu slices -> span queue %zu which holds spans of at most %zu slices", c, b, tld_main.segments.spans[b].slice_count);
  if (b > 0 && c > 1 && tld_main.segments.spans[b - 1].slice_count >= c && mi_slice_bin8(tld_main.segments.spans[b - 1].slice_count) == b - 1 && 0) violation(rp, "unused", c);
  if (c >= 1 && (c & (c - 1)) == 0) n_nontrivial++;
}
static void check_divide(size_t d, size_t i, size_t r) {   // (i*d + r) / d == i  for r < d
  char rp[200]; snprintf(rp, sizeof rp, "div %zu %zu %zu", d, i, r); n_eval++; cls[3]++;
  uint64_t magic; size_t shift; mi_get_fast_divisor(d, &magic, &shift);
  size_t n = i * d + r; if (n > UINT32_MAX) return;
  size_t q = mi_fast_divide(n, magic, shift);
  if (q != n / d) violation(rp, "fast-divide: %zu / %zu = %zu but mi_fast_divide gives %zu", n, d, n / d, q);
  if ((d & (d - 1)) != 0) n_nontrivial++;
}
static void check_block_addr(void* p, size_t n, size_t off, int large) {
  char rp[200]; snprintf(rp, sizeof rp, "addr %zu %zu", n, off); n_eval++; cls[large ? 5 : 4]++;
  uint8_t* a = (uint8_t*)p + off;
  mi_segment_t* seg = _mi_ptr_segment(p); mi_segment_t* seg2 = _mi_ptr_segment(a);
  if (seg != seg2) { violation(rp, "segment-of-interior: block %p (size %zu) offset %zu: segment %p differs from the segment of the block start %p", p, n, off, (void*)seg2, (void*)seg); return; }
  mi_page_t* pg = _mi_segment_page_of(seg, p); mi_page_t* pg2 = _mi_ptr_page(a);
  if (pg != pg2) { violation(rp, "page-of-interior: block %p (size %zu) offset %zu: page %p differs from the page of the block start %p", p, n, off, (void*)pg2, (void*)pg); return; }
  mi_block_t* b = _mi_page_ptr_unalign(pg2, a);
  if ((void*)b != p) violation(rp, "unalign: block %p (block size %zu) offset %zu: recovered start %p", p, mi_page_block_size(pg), off, (void*)b);
  size_t bs = mi_page_block_size(pg); if ((bs & (bs - 1)) != 0 && off != 0) n_nontrivial++;
}
static void blocks_for_size(size_t n, int pages_wanted, int large) {
  // allocate until `pages_wanted` distinct pages of that class exist, check sampled blocks, free everything
  enum { MAXB = 40000 }; static void* ps[MAXB]; int np = 0; mi_page_t* seen[8]; int nseen = 0;
  while (np < MAXB) { void* p = mi_malloc(n); if (!p) break; ps[np++] = p; mi_page_t* pg = _mi_ptr_page(p); int k; for (k = 0; k < nseen; k++) if (seen[k] == pg) break; if (k == nseen) { if (nseen < 8) seen[nseen++] = pg; if (nseen >= pages_wanted) break; } if (large && np >= pages_wanted) break; }
  size_t bs = mi_usable_size(ps[0]);
  for (int i = 0; i < np; i++) { if (np > 600 && (i % (np / 300 + 1)) != 0 && i != np - 1 && i > 2) continue;
    size_t offs[6] = { 0, 1, bs / 2, bs - 1, bs > 16 ? 15 : 0, bs > 4096 ? 4096 : 0 }; for (int k = 0; k < 6; k++) if (offs[k] < bs && offs[k] < MI_BLOCK_ALIGNMENT_MAX) check_block_addr(ps[i], n, offs[k], large);
    // interior pointers are supported up to MI_BLOCK_ALIGNMENT_MAX into a block (that is what an over-aligned allocation can produce): probe the slice boundaries up to there
    if (large) { static const size_t sl[] = { 1, 2, 63, 64, 127, 128, 200, 254, 255 }; for (size_t k = 0; k < sizeof sl / sizeof *sl; k++) { size_t o = sl[k] * MI_SEGMENT_SLICE_SIZE; if (o < bs && o < MI_BLOCK_ALIGNMENT_MAX) { check_block_addr(ps[i], n, o, large); if (o + 100 < bs && o + 100 < MI_BLOCK_ALIGNMENT_MAX) check_block_addr(ps[i], n, o + 100, large); if (o >= 8) check_block_addr(ps[i], n, o - 8, large); } } } }
  for (int i = 0; i < np; i++) mi_free(ps[i]);
}
static void check_align(uint64_t x, uint64_t a) {
  char rp[200]; snprintf(rp, sizeof rp, "align %" PRIu64 " %" PRIu64, x, a); n_eval++; cls[6]++;
  if (a == 0 || x > UINT64_MAX - a) return;
  uint64_t up = _mi_align_up(x, a), dn = _mi_align_down(x, a);
  u128 rup = (((u128)x + a - 1) / a) * a; uint64_t rdn = (x / a) * a;
  if ((u128)up != rup) violation(rp, "align-up: _mi_align_up(%" PRIu64 ",%" PRIu64 ")=%" PRIu64, x, a, up);
  if (dn != rdn) violation(rp, "align-down: _mi_align_down(%" PRIu64 ",%" PRIu64 ")=%" PRIu64, x, a, dn);
  if (((a & (a - 1)) != 0 || (x % a) == 0 || (x % a) == a - 1) && hset_new(x, a, 1)) n_nontrivial++;
}
static void check_divup(uint64_t x, uint64_t d) {
  char rp[200]; snprintf(rp, sizeof rp, "divup %" PRIu64 " %" PRIu64, x, d); n_eval++; cls[7]++;
  if (d == 0 || x > UINT64_MAX - d) return;
  uint64_t q = _mi_divide_up(x, d); u128 rq = ((u128)x + d - 1) / d;
  if ((u128)q != rq) violation(rp, "divide-up: _mi_divide_up(%" PRIu64 ",%" PRIu64 ")=%" PRIu64, x, d, q);
  if ((x % d == 0 || x % d == 1) && hset_new(x, d, 2)) n_nontrivial++;
}
static void check_mul(uint64_t c, uint64_t s) {
  char rp[200]; snprintf(rp, sizeof rp, "mul %" PRIu64 " %" PRIu64, c, s); n_eval++; cls[8]++;
  size_t t1 = 0, t2 = 0; bool o1 = mi_mul_overflow(c, s, &t1); bool o2 = mi_count_size_overflow(c, s, &t2);
  u128 r = (u128)c * s; bool ro = r > (u128)UINT64_MAX;
  if (o1 != ro || (!ro && t1 != (uint64_t)r)) violation(rp, "mul-overflow: mi_mul_overflow(%" PRIu64 ",%" PRIu64 ") -> %d total %zu", c, s, (int)o1, t1);
  if (o2 != ro || (!ro && t2 != (uint64_t)r)) violation(rp, "count-size-overflow: mi_count_size_overflow(%" PRIu64 ",%" PRIu64 ") -> %d total %zu", c, s, (int)o2, t2);
  u128 lim = (u128)1 << 64; if (r + (r >> 20) >= lim && r < lim + (lim >> 20) && hset_new(c, s, 3)) n_nontrivial++;
}
static void check_bits(uint64_t x) {
  char rp[200]; snprintf(rp, sizeof rp, "bits %" PRIu64, x); n_eval++; cls[9]++;
  size_t clz = 64, ctz = 64, pop = 0; for (int i = 63; i >= 0; i--) if (x >> i & 1) { clz = (size_t)(63 - i); break; } for (int i = 0; i < 64; i++) if (x >> i & 1) { ctz = (size_t)i; break; } for (int i = 0; i < 64; i++) pop += (x >> i) & 1;
  if (mi_clz(x) != clz) violation(rp, "clz: mi_clz(0x%" PRIx64 ")=%zu expected %zu", x, mi_clz(x), clz);
  if (mi_ctz(x) != ctz) violation(rp, "ctz: mi_ctz(0x%" PRIx64 ")=%zu expected %zu", x, mi_ctz(x), ctz);
  if (mi_popcount(x) != pop) violation(rp, "popcount: mi_popcount(0x%" PRIx64 ")=%zu expected %zu", x, mi_popcount(x), pop);
  if (x != 0 && mi_bsr(x) != 63 - clz) violation(rp, "bsr: mi_bsr(0x%" PRIx64 ")=%zu expected %zu", x, mi_bsr(x), 63 - clz);
  if ((pop <= 1 || pop >= 63) && hset_new(x, 0, 4)) n_nontrivial++;
}
static void check_wsize(uint64_t n, uint64_t lo, uint64_t hi) {
  char rp[200]; snprintf(rp, sizeof rp, "wsize %" PRIu64 " %" PRIu64 " %" PRIu64, n, lo, hi); n_eval++; cls[10]++;
  if (n <= UINT64_MAX - 8) { size_t w = _mi_wsize_from_size(n); u128 r = ((u128)n + 7) / 8; if ((u128)w != r) violation(rp, "wsize: _mi_wsize_from_size(%" PRIu64 ")=%zu", n, w); }
  if (lo <= hi) { size_t c = _mi_clamp(n, lo, hi); uint64_t r = n < lo ? lo : (n > hi ? hi : n); if (c != r) violation(rp, "clamp: _mi_clamp(%" PRIu64 ",%" PRIu64 ",%" PRIu64 ")=%zu", n, lo, hi, c); }
  if ((n % 8 == 0 || n % 8 == 1) && hset_new(n, lo ^ hi, 5)) n_nontrivial++;
}

static uint64_t boundary64(void) {   // values around powers of two / SIZE_MAX / PTRDIFF_MAX
  uint64_t k = rnd() % 70; int64_t d = (int64_t)(rnd() % 17) - 8; uint64_t b = (k < 64 ? (uint64_t)1 << k : k < 66 ? UINT64_MAX : k < 68 ? (uint64_t)INT64_MAX : rnd());
  return b + (uint64_t)d;
}

static int do_replay(const char* path) {
  FILE* f = fopen(path, "r"); if (!f) { perror(path); return 2; } char line[256]; replaying = 1;
  while (fgets(line, sizeof line, f)) { if (line[0] == '#') continue; char fn[32]; unsigned long long a = 0, b = 0, c = 0; int k = sscanf(line, "%31s %llu %llu %llu", fn, &a, &b, &c); if (k < 2) continue;
    if (!strcmp(fn, "size")) check_size(a, 0); else if (!strcmp(fn, "good")) check_good_size(a, (int)b); else if (!strcmp(fn, "hist")) check_good_size_history((int)a, b); else if (!strcmp(fn, "slices")) check_slice_count(a); else if (!strcmp(fn, "div")) check_divide(a, b, c);
    else if (!strcmp(fn, "addr")) blocks_for_size(a, 3, a > MI_MEDIUM_OBJ_SIZE_MAX); else if (!strcmp(fn, "align")) check_align(a, b); else if (!strcmp(fn, "divup")) check_divup(a, b); else if (!strcmp(fn, "mul")) check_mul(a, b);
    else if (!strcmp(fn, "bits")) check_bits(a); else if (!strcmp(fn, "wsize")) check_wsize(a, b, c); }
  fclose(f); if (n_viol == 0) printf("PASS\n"); return n_viol ? 1 : 0;
}

static void jstr(const char* s) { putchar('"'); for (; *s; s++) { if (*s == '"' || *s == '\\') putchar('\\'); if (*s == '\n') { printf("\\n"); continue; } putchar(*s); } putchar('"'); }

int main(int argc, char** argv) {
  int thorough = 0; uint64_t seed = 1; const char* replay = NULL;
  for (int i = 1; i < argc; i++) { if (!strcmp(argv[i], "--tier") && i + 1 < argc) thorough = !strcmp(argv[++i], "thorough"); else if (!strcmp(argv[i], "--seed") && i + 1 < argc) seed = strtoull(argv[++i], NULL, 0); else if (!strcmp(argv[i], "--replay") && i + 1 < argc) replay = argv[++i]; }
  rng_s = seed * 0x9E3779B97F4A7C15ull + 12345;
  if (replay) return do_replay(replay);
  // ---- exhaustive: all sizes 0 .. 2*MI_MEDIUM_OBJ_SIZE_MAX
  size_t prevb = 0;
  for (size_t n = 0; n <= 2 * MI_MEDIUM_OBJ_SIZE_MAX; n++) {
    size_t b = _mi_bin(n); int edge = (n > 0 && b != prevb);
    check_size(n, edge);
    if (b < prevb) { char rp[64]; snprintf(rp, sizeof rp, "size %zu", n); violation(rp, "bin-monotone: _mi_bin(%zu)=%zu < _mi_bin(%zu)=%zu", n, b, n - 1, prevb); }
    prevb = b;
    if (n <= MI_MEDIUM_OBJ_SIZE_MAX + 16) check_good_size(n, 1);
  }
  sample("size 65536 (exhaustive sweep 0..131072: bin size >= n, monotone, waste <= 25%, good_size == usable size of a real mi_malloc)");
  check_good_size_history(0, seed); check_good_size_history(1, seed); for (int r = 0; r < (thorough ? 40 : 4); r++) check_good_size_history(2, seed * 100 + (uint64_t)r);
  sample("hist 1 (each size class first used right after the next larger one: usable size == mi_good_size for the 16 sizes below every class boundary)");
  // sizes at every power of two +- 8 up to PTRDIFF_MAX
  for (int k = 3; k < 63; k++) for (int d = -8; d <= 8; d++) { size_t n = ((size_t)1 << k) + (size_t)(int64_t)d; if (n > (size_t)PTRDIFF_MAX - 65536) continue; n_eval++; cls[11]++; n_nontrivial++;
    size_t b = _mi_bin(n); if (n > MI_MEDIUM_OBJ_SIZE_MAX && b != MI_BIN_HUGE) { char rp[64]; snprintf(rp, sizeof rp, "size %zu", n); violation(rp, "bin-not-huge: _mi_bin(%zu)=%zu", n, b); }
    size_t g = mi_good_size(n); if (g < n) { char rp[64]; snprintf(rp, sizeof rp, "good %zu 0", n); violation(rp, "good-size-small: mi_good_size(%zu)=%zu", n, g); } }
  // ---- exhaustive: slice counts 0..MI_SLICES_PER_SEGMENT
  for (size_t c = 0; c <= MI_SLICES_PER_SEGMENT; c++) check_slice_count(c);
  sample("slices 0..512 (exhaustive: span-queue bin monotone, in range, queue capacity >= count)");
  // ---- exhaustive: fast division for every bin size and every multiple of 8 up to 64 KiB, every quotient that fits a page
  for (size_t d = 8; d <= MI_MEDIUM_OBJ_SIZE_MAX; d += 8) {
    int is_bin = (d <= MI_MEDIUM_OBJ_SIZE_MAX && bin_size_of(_mi_bin(d)) == d);
    if (!is_bin && !thorough && (d % 64) != 0) continue;
    size_t page = (d <= MI_SMALL_OBJ_SIZE_MAX ? MI_SMALL_PAGE_SIZE : MI_MEDIUM_PAGE_SIZE);
    for (size_t i = 0; i * d < page; i++) { check_divide(d, i, 0); if (d > 1) { check_divide(d, i, d - 1); check_divide(d, i, 1); } }
  }
  sample("div 48 1364 47 (exhaustive: every bin size / multiple of 8 x every block index of a page x remainders {0,1,d-1})");
  // ---- real blocks: every bin size, three pages each; large pages of 2..200 slices
  for (size_t b = 1; b < MI_BIN_HUGE; b++) { size_t bs = bin_size_of(b); if (bs == 0 || _mi_bin(bs) != b) continue;
#if MI_PADDING
    if (bs <= MI_PADDING_SIZE) continue; blocks_for_size(bs - MI_PADDING_SIZE, 3, 0);
#else
    blocks_for_size(bs, 3, 0);
#endif
  }
  { static const size_t slices[] = { 2, 3, 5, 8, 13, 16, 31, 64, 100, 127, 200, 255, 256, 257, 300, 511, 700 }; for (size_t i = 0; i < sizeof slices / sizeof *slices; i++) blocks_for_size(slices[i] * MI_SEGMENT_SLICE_SIZE - 4096, 3, 1); }
  sample("addr 112 55 (every bin size: blocks on 3 pages x interior offsets {0,1,15,bs/2,4096,bs-1}: _mi_ptr_segment/_mi_ptr_page/_mi_page_ptr_unalign recover page and block start)");
  // ---- generated 64-bit operands
  long N = thorough ? 4000000 : 300000;
  for (long i = 0; i < N; i++) {
    uint64_t x = (i % 3 == 0 ? boundary64() : rnd()), y = (i % 2 == 0 ? boundary64() : rnd());
    static const uint64_t al[] = { 1, 2, 3, 8, 16, 24, 48, 4096, 65536, 33554432, 12345, (uint64_t)1 << 40 }; uint64_t a = (i % 4 == 0 ? (rnd() % 100000) + 1 : al[rnd() % 12]);
    check_align(x >> (rnd() % 40), a); check_divup(x >> (rnd() % 40), a); check_mul(x >> (rnd() % 64), y >> (rnd() % 64)); check_bits(i % 5 == 0 ? ((uint64_t)1 << (rnd() % 64)) - (rnd() % 2) : x); check_wsize(x, y >> 1, y);
  }
  sample("mul 4294967297 4294967295 / align 18446744073709551000 24 / bits 0x8000000000000000 (generated around powers of two, SIZE_MAX, PTRDIFF_MAX)");
  // ---- JSON summary
  printf("{\"evaluations\":%ld,\"distinct_nontrivial\":%ld,\"violations\":%ld,\"exhaustive\":true,\"classes\":{", n_eval, n_nontrivial, n_viol);
  for (int i = 0; cls_names[i]; i++) printf("%s\"%s\":%ld", i ? "," : "", cls_names[i], cls[i]);
  printf("},\"samples\":["); for (int i = 0; i < n_samples; i++) { if (i) putchar(','); jstr(samples[i]); }
  printf("],\"violation_list\":["); for (int i = 0; i < n_viol && i < 8; i++) { if (i) putchar(','); printf("{\"msg\":"); jstr(viol[i]); printf(",\"replay\":"); jstr(viol_replay[i]); putchar('}'); }
  printf("]}\n");
  return 0;
}
