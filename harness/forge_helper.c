// White-box helper for the C17 harness: computes the value that, stored in the first word of a freed block, makes its free-list link decode to a
// chosen address. Only the *input* of the misuse is crafted with knowledge of the page keys; the oracle stays black-box (error callback, returned
// addresses). Compiled with the same -D flags as the variant's mimalloc object.
#include "mimalloc.h"
#include "mimalloc/internal.h"
// where: 1 = one block below the page area (the unused gap at the start of the slice), 2 = first byte past the page area, 3 = same offset in the next
// segment-sized region, 4 = a small integer, 5 = the segment header. Returns 1 and the value, or 0 if not applicable in this build / for this block.
int vf_forge_value(const void* block, int where, unsigned long long* value, unsigned long long* target_out) {
#ifdef MI_ENCODE_FREELIST
  mi_segment_t* segment = _mi_ptr_segment(block); if (segment == NULL) return 0;
  mi_page_t* page = _mi_segment_page_of(segment, block); size_t psize = 0; uint8_t* start = _mi_segment_page_start(segment, page, &psize); size_t bsize = mi_page_block_size(page);
  uintptr_t t = 0;
  switch (where) {
    case 1: if ((uintptr_t)start < bsize || (uint8_t*)start - bsize < (uint8_t*)segment + sizeof(mi_segment_t) || ((uintptr_t)(start - bsize) >> MI_SEGMENT_SLICE_SHIFT) != ((uintptr_t)start >> MI_SEGMENT_SLICE_SHIFT)) return 0; t = (uintptr_t)(start - bsize); break;
    case 2: t = (uintptr_t)(start + psize); if (_mi_ptr_segment((void*)t) != segment) return 0; break;
    case 3: t = (uintptr_t)block + 2 * MI_SEGMENT_SIZE; break;
    case 4: t = 0x18; break;
    case 5: t = (uintptr_t)segment + 64; break;
    default: return 0;
  }
  *value = (unsigned long long)mi_ptr_encode(page, (void*)t, page->keys); *target_out = t; return 1;
#else
  (void)block; (void)where; (void)value; (void)target_out; return 0;
#endif
}
