// IR executor, part 2: range ops, helper threads, heaps, heap walks, options, arenas, main loop.
#pragma once
#include "hist_exec.hpp"

// ---------------------------------------------------------------- range ops
void Exec::op_fill(const Op& op) {
  int s0 = (int)op.num("s"), k = (int)op.num("k"); if (k > 9000) k = 9000;
  Op one("alloc"); one.kv = op.kv;
  for (int i = 0; i < k; i++) { int s = s0 + i; if (s >= NSLOTS) break; one.set("s", std::to_string(s)); op_alloc(one); }
}

struct ThreadJob { mi_subproc_id_t subproc = nullptr; bool use_subproc = false; std::vector<void*> ptrs; std::string f; size_t n = 0, k = 0, a = 0; bool is_alloc = false; int arena = -1; mi_arena_id_t arena_id; bool use_arena = false; };
static void* thread_main(void* arg) {
  ThreadJob* j = (ThreadJob*)arg;
  if (j->use_subproc) mi_subproc_add_current_thread(j->subproc);   // first action of the thread, before any allocation
  if (j->is_alloc) {
    mi_heap_t* hp = nullptr;
    if (j->use_arena) hp = mi_heap_new_in_arena(j->arena_id);
    for (size_t i = 0; i < j->k; i++) {
      void* p;
      if (hp) p = mi_heap_malloc(hp, j->n);
      else if (j->f == "zalloc") p = mi_zalloc(j->n); else if (j->a > 16) p = mi_malloc_aligned(j->n, j->a); else p = mi_malloc(j->n);
      j->ptrs.push_back(p);
    }
  } else {
    for (void* p : j->ptrs) mi_free(p);
  }
  return nullptr;
}
static void run_thread(ThreadJob& j) { pthread_t t; if (pthread_create(&t, nullptr, &thread_main, &j) != 0) { perror("pthread_create"); _exit(2); } pthread_join(t, nullptr); }

void Exec::op_rfree(const Op& op, bool threaded) {
  int s0 = (int)op.num("s"), k = (int)op.num("k", 1), step = (int)op.num("step", 1), ph = (int)op.num("ph", 0); if (step < 1) step = 1;
  std::string f = op.str("f", "free");
  ThreadJob j;
  for (int i = ph; i < k; i += step) {
    int s = s0 + i; if (s < 0 || s >= NSLOTS || !m.slots[s].live) continue;
    if (!threaded) { free_slot(s, f); continue; }
    Blk& b = m.slots[s]; verify_blk(s, "before-tfree"); if (b.zmode) pat_fill(b.p, b.u, b.key);
    j.ptrs.push_back(b.p); model_remove(s, true); count(C_FREES);
  }
  if (threaded && !j.ptrs.empty()) {
    run_thread(j); flag(F_TFREE);
    for (int i = 1; i < NHEAPS; i++) if (m.heaps[i].alive) m.heaps[i].pending_remote = true;
    verify_all("after-tfree");
  }
}

void Exec::op_talloc(const Op& op) {
  int s0 = (int)op.num("s"), k = (int)op.num("k", 1); if (k > 1024) k = 1024;
  ThreadJob j; j.is_alloc = true; j.n = op.num("n"); j.k = (size_t)k; j.f = op.str("f", "malloc"); j.a = op.num("a", 0);
  if (op.has("ar")) { int ai = (int)op.num("ar"); if (ai < 0 || ai >= NARENAS || !m.arenas[ai].valid) return; j.use_arena = true; j.arena_id = m.arenas[ai].id; j.arena = ai; }
  int spi = op.has("sp") ? (int)op.num("sp") : -1; if (spi >= 0) { if (spi > 1 || !m.subprocs[spi] || j.use_arena) return; j.use_subproc = true; j.subproc = m.subprocs[spi]; flag(F_SUBPROC); }
  if (j.a != 0 && (j.a & (j.a - 1)) != 0) return;
  run_thread(j); flag(F_TALLOC);
  for (int i = 0; i < k && i < (int)j.ptrs.size(); i++) {
    int s = s0 + i; if (s >= NSLOTS) { if (j.ptrs[i]) mi_free(j.ptrs[i]); continue; }
    uint8_t* p = (uint8_t*)j.ptrs[i]; count(C_ALLOCS);
    if (!p) { count(C_NULLS); if (!allow_null && j.n <= MUST_SUCCEED_MAX && !j.use_arena) fail_now("null", "op#%ld helper thread: alloc(%zu) returned NULL", opi, j.n); continue; }
    if (m.slots[s].live) { mi_free(p); continue; }
    bool z = (j.f == "zalloc");
    if (j.a > 16 && !z && !j.use_arena) check_alignment(p, j.n, j.a, 0, "talloc");
    model_add(s, p, j.n, j.a > 16 ? j.a : 1, 0, j.use_arena ? -2 - j.arena : (spi >= 0 ? -20 - spi : -1), z, "talloc"); m.slots[s].foreign = true;
    if (z) check_zeroed(p, 0, j.n, "talloc-zalloc");
    model_fill(s);
  }
}

// ---------------------------------------------------------------- heaps
static int opt_index(const std::string& name);

void Exec::op_heap(const Op& op) {
  const std::string& nm = op.name;
  if (nm == "collect") { mi_collect(op.num("force") != 0); flag(F_COLLECT); m.heaps[m.def].pending_remote = false; verify_all("after-collect"); return; }
  int h = (int)op.num("h");
  if (nm == "hnew") {
    if (h < 2 || h >= NHEAPS || m.heaps[h].alive) return;
    Hp& H = m.heaps[h]; std::string kind = op.str("kind", "new"); mi_heap_t* hp = nullptr; H = Hp();
    if (kind == "new") { hp = mi_heap_new(); H.kind = 1; H.destroyable = true; }
    else if (kind == "ex") { int tag = (int)op.num("tag", 0) & 255; if (forced_abandon && tag != 0) { count(C_EXCLUDED); tag = 0; } bool d = op.num("d", 0) != 0; int ai = op.has("ar") ? (int)op.num("ar") : -1;
      mi_arena_id_t aid = 0; if (ai >= 0) { if (ai >= NARENAS || !m.arenas[ai].valid) return; aid = m.arenas[ai].id; }
      if (tag != 0 && ai >= 0) { count(C_EXCLUDED); tag = 0; }   // guard: heap tags are not combined with arena-bound heaps (tag routing of reclaimed pages reports errors by design)
      hp = mi_heap_new_ex(tag, d, aid); H.kind = 3; H.tag = tag; H.arena = ai; H.destroyable = d; }
    else if (kind == "arena") { int ai = (int)op.num("ar"); if (ai < 0 || ai >= NARENAS || !m.arenas[ai].valid) return; hp = mi_heap_new_in_arena(m.arenas[ai].id); H.kind = 2; H.arena = ai; }
    else return;
    if (!hp) { if (!allow_null) fail_now("heap-new-null", "op#%ld mi_heap_new (%s) returned NULL", opi, kind.c_str()); return; }
    H.h = hp; H.alive = true; flag(F_MULTIHEAP); return;
  }
  if (h < 1 || h >= NHEAPS || !m.heaps[h].alive) return;
  Hp& H = m.heaps[h];
  if (nm == "hcollect") { mi_heap_collect(H.h, op.num("force") != 0); H.pending_remote = false; flag(F_COLLECT); verify_all("after-heap-collect"); return; }
  if (nm == "hdefault") { mi_heap_t* old = mi_heap_set_default(H.h); if (old != heap_of(m.def)) fail_now("set-default-old", "op#%ld mi_heap_set_default returned %p, expected previous default %p", opi, old, heap_of(m.def)); m.def = h; return; }
  if (h < 2) return;   // never delete/destroy the backing heap (documented precondition)
  bool destroy = (nm == "hdestroy") && H.destroyable;
  if (forced_abandon && destroy) { count(C_EXCLUDED); return; }   // pages of the heap may have been abandoned and re-homed: "its blocks" is no longer known to the model
  if (nm != "hdel" && nm != "hdestroy") return;
  if (!destroy && H.tag != 0) {   // guard: pages of a tagged heap that get abandoned are reclaimed by whichever thread comes first; without a heap of
    // that tag there, the allocator reports an error by design ("page with tag %u cannot be reclaimed by a heap with the same tag")
    bool any = false; for (auto& kv : m.live) if (m.slots[kv.second].home == h) any = true;
    if (any && !known_f5_off) { count(C_EXCLUDED); return; }
  }
  verify_all("before-heap-release");
  size_t owned = 0, others = 0; for (auto& kv : m.live) { if (m.slots[kv.second].home == h) owned++; else others++; }
  if (destroy) {
    for (int s = 0; s < NSLOTS; s++) if (m.slots[s].live && m.slots[s].home == h) model_remove(s, true);
    mi_heap_destroy(H.h); if (owned >= 2 && others >= 1) flag(F_HEAP_DESTROY);
  } else {
    bool compat = (H.tag == 0 && H.arena < 0);
    for (int s = 0; s < NSLOTS; s++) if (m.slots[s].live && m.slots[s].home == h) { m.slots[s].home = compat ? 1 : (H.arena >= 0 ? -2 - H.arena : -1); if (!compat && !known_f5_off) m.slots[s].stranded = true; }
    // blocks of exited threads in the same arena may have been adopted by this heap: they are stranded as well (F5), which the model cannot tell apart
    if (!compat && !known_f5_off && H.arena >= 0 && m.arenas[H.arena].valid) { ArenaInfo& A = m.arenas[H.arena]; for (auto& kv : m.live) if (kv.first >= (uintptr_t)A.start && kv.first < (uintptr_t)A.start + A.size) m.slots[kv.second].stranded = true; }
    mi_heap_delete(H.h);   // mi_heap_destroy on a heap created without allow_destroy violates mi_assert(heap->no_reclaim): never generated
    if (owned >= 2 && others >= 1) flag(F_HEAP_DEL);
  }
  H.alive = false; H.h = nullptr;
  if (m.def == h) {
    m.def = 1;
    if (mi_heap_get_default() != mi_heap_get_backing()) fail_now("default-fallback", "op#%ld default heap is not the backing heap after releasing the default heap", opi);
  }
  verify_all("after-heap-release");
}

// ownership attribution (C10): sampled sweep
void Exec::op_owncheck() {
  size_t nl = m.live.size(); if (nl == 0) return; size_t stride = nl / 48 + 1, idx = 0;
  mi_heap_t* defh = heap_of(m.def);
  for (auto& kv : m.live) {
    if ((idx++ % stride) != 0) continue; Blk& b = m.slots[kv.second]; if (b.home < 1) continue;
    for (int g = 1; g < NHEAPS; g++) { if (!m.heaps[g].alive) continue;
      bool exp = (b.home == g); bool got = mi_heap_contains_block(m.heaps[g].h, b.p); count(C_OWN_CHECKS);
      if (got != exp) fail_now("contains-block", "op#%ld mi_heap_contains_block(heap %d, %p)=%d but the block's home is heap %d", opi, g, b.p, (int)got, b.home);
      bool got2 = mi_heap_check_owned(m.heaps[g].h, b.p); bool exp2 = exp && (((uintptr_t)b.p & 7) == 0);
      if (got2 != exp2) fail_now("check-owned", "op#%ld mi_heap_check_owned(heap %d, %p)=%d but the block's home is heap %d", opi, g, b.p, (int)got2, b.home);
    }
    bool c = mi_check_owned(b.p); bool ce = (b.home == m.def) && (((uintptr_t)b.p & 7) == 0);
    if (c != ce) fail_now("mi-check-owned", "op#%ld mi_check_owned(%p)=%d, home=%d default=%d", opi, b.p, (int)c, b.home, m.def);
    (void)defh;
  }
}

// ---------------------------------------------------------------- heap walk (C12)
struct VisitRec { uintptr_t b; size_t s; };
struct VisitAreaRec { uintptr_t blocks; size_t reserved, used, bsize, fbsize; size_t seen = 0; };
struct VisitCtx { std::vector<VisitRec> blocks; std::vector<VisitAreaRec> areas; long stop = -1; long calls = 0; const mi_heap_t* heap = nullptr; bool wrong_heap_arg = false; long stop_area = -1; long area_calls = 0; bool said_stop = false; long calls_after_stop = 0; };
static bool visit_cb(const mi_heap_t* heap, const mi_heap_area_t* area, void* block, size_t bsize, void* arg) {
  VisitCtx* c = (VisitCtx*)arg;
  if (c->said_stop) { c->calls_after_stop++; return false; }
  if (block == nullptr && c->stop_area > 0 && ++c->area_calls >= c->stop_area) { c->said_stop = true; return false; }   // stop on an area call (the area is not recorded)
  if (block == nullptr) { VisitAreaRec a; a.blocks = (uintptr_t)area->blocks; a.reserved = area->reserved; a.used = area->used; a.bsize = area->block_size; a.fbsize = area->full_block_size; c->areas.push_back(a); return true; }
  if (c->heap && heap != c->heap) c->wrong_heap_arg = true;
  c->calls++; c->blocks.push_back({ (uintptr_t)block, bsize });
  if (c->stop > 0 && c->calls >= c->stop) { c->said_stop = true; return false; }
  return true;
}

void Exec::op_visit(const Op& op) {
  if (walk_unreliable) { count(C_EXCLUDED); return; }
  int h = (int)op.num("h", 1); if (h < 1 || h >= NHEAPS || !m.heaps[h].alive) return; Hp& H = m.heaps[h];
  if (H.pending_remote) { mi_heap_collect(H.h, false); H.pending_remote = false; }
  VisitCtx c; c.stop = (long)op.snum("stop", -1); c.heap = H.h; c.stop_area = (long)op.snum("stoparea", -1);
  bool ret = mi_heap_visit_blocks(H.h, true, &visit_cb, &c);
  flag(F_VISIT); count(C_VISITED_BLOCKS, c.blocks.size());
  bool stopped = c.said_stop;
  if (c.calls_after_stop > 0) fail_now("visit-stop", "op#%ld the visitor returned false but was called %ld more time(s)", opi, c.calls_after_stop);
  if (stopped && ret) fail_now("visit-stop-ret", "op#%ld mi_heap_visit_blocks returned true although the visitor returned false", opi);
  if (stopped) flag(F_VISIT_STOP);
  if (c.stop > 0) {
    if (c.calls > c.stop) fail_now("visit-stop", "op#%ld visitor returned false at block call %ld but %ld calls were made", opi, c.stop, c.calls);
    if (stopped && ret) fail_now("visit-stop-ret", "op#%ld mi_heap_visit_blocks returned true although the visitor returned false", opi);
    if (stopped) flag(F_VISIT_STOP);
  }
  if (c.wrong_heap_arg) fail_now("visit-heap-arg", "op#%ld block visitor was called with a different heap", opi);
  std::set<int> matched; size_t descriptors = 0;
  for (auto& v : c.blocks) {
    uintptr_t lo = v.b, hi = v.b + (v.s ? v.s : 1);
    auto it = m.live.lower_bound(lo); int found = -1; int nfound = 0;
    for (; it != m.live.end() && it->first < hi; ++it) { found = it->second; nfound++; }
    // a model block that starts before lo but reaches into the range?
    { auto jt = m.live.lower_bound(lo); if (jt != m.live.begin()) { --jt; Blk& pb = m.slots[jt->second]; if (jt->first + (pb.u ? pb.u : 1) > lo) fail_now("visit-range", "op#%ld visited range [%p,+%zu) starts inside live block %p(+%zu)", opi, (void*)lo, v.s, pb.p, pb.u); } }
    if (nfound > 1) fail_now("visit-two", "op#%ld visited range [%p,+%zu) contains %d live blocks", opi, (void*)lo, v.s, nfound);
    if (nfound == 1) {
      Blk& b = m.slots[found];
      if ((uintptr_t)b.p + b.u > hi && b.u > 0) fail_now("visit-enclose", "op#%ld visited range [%p,+%zu) does not enclose block %p usable %zu", opi, (void*)lo, v.s, b.p, b.u);
      if (b.home == h) { if (!matched.insert(found).second) fail_now("visit-twice", "op#%ld block %p visited twice", opi, b.p); }
      else if (b.home <= -20) fail_now("cross-subproc-adoption", "op#%ld heap %d walk reported block %p that was left behind by a thread of another sub-process", opi, h, b.p);
      else if (b.home >= 1 && !forced_abandon) fail_now("visit-wrong-heap", "op#%ld heap %d walk reported block %p whose home is heap %d", opi, h, b.p, b.home);
      // home < 0: floating (abandoned / adopted) — allowed in a reclaiming heap
    } else {
      bool desc = false;
      if (h == 1 || forced_abandon) for (int g = 2; g < NHEAPS; g++) if (m.heaps[g].alive && (uintptr_t)m.heaps[g].h >= lo && (uintptr_t)m.heaps[g].h < hi) desc = true;
      if (desc) descriptors++;
      else fail_now("visit-phantom", "op#%ld heap %d walk reported [%p,+%zu) which is not a live block", opi, h, (void*)lo, v.s);
    }
    for (auto& a : c.areas) if (lo >= a.blocks && lo < a.blocks + a.reserved) { a.seen++; break; }
  }
  if (!stopped) {
    if (!forced_abandon) for (auto& kv : m.live) { Blk& b = m.slots[kv.second]; if (b.home == h && !matched.count(kv.second)) fail_now("visit-missing", "op#%ld heap %d walk did not report live block %p (n=%zu)", opi, h, b.p, b.n); }
    if (h == 1) { size_t nd = 0; for (int g = 2; g < NHEAPS; g++) if (m.heaps[g].alive) nd++; if (descriptors != nd && !(forced_abandon && descriptors < nd)) fail_now("visit-descriptors", "op#%ld backing heap walk reported %zu heap descriptors, %zu heaps exist", opi, descriptors, nd); }
    size_t holes = 0, full = 0;
    for (auto& a : c.areas) {
      if (a.seen != a.used) fail_now("visit-area-used", "op#%ld area %p: used=%zu but %zu blocks were reported in it", opi, (void*)a.blocks, a.used, a.seen);
      size_t cap = a.fbsize ? a.reserved / a.fbsize : 0;
      if (a.used == cap || cap == 1) full++; else if (a.used > 0) holes++;
    }
    if (holes) flag(F_VISIT_HOLES); if (full) flag(F_VISIT_FULL);
  }
}

// census: walk every heap of this thread and (when enabled) the abandoned segments: every live block exactly once, nothing else
void Exec::op_census(const Op& op) {
  if (walk_unreliable) { count(C_EXCLUDED); return; }
  std::vector<VisitRec> all; std::vector<int> from;   // from: heap index or 0 for abandoned
  // (all collects first: a collect may run the program's deferred-free callback, which frees blocks of any heap of this thread)
  for (int h = 1; h < NHEAPS; h++) { if (!m.heaps[h].alive) continue; Hp& H = m.heaps[h]; if (H.pending_remote) { mi_heap_collect(H.h, false); H.pending_remote = false; } }
  for (int h = 1; h < NHEAPS; h++) { if (!m.heaps[h].alive) continue; Hp& H = m.heaps[h];
    VisitCtx c; c.heap = H.h; mi_heap_visit_blocks(H.h, true, &visit_cb, &c); for (auto& v : c.blocks) { all.push_back(v); from.push_back(h); } }
  bool with_abandoned = visit_abandoned_on;
  if (with_abandoned && op.has("astop")) {   // an abandoned walk that the visitor stops early: it stops there, reports false, and takes nothing away from the walk that follows
    VisitCtx cs; cs.stop = (long)op.snum("astop", 1); if (op.has("astoparea")) { cs.stop = -1; cs.stop_area = (long)op.snum("astoparea", 1); }
    bool ret = mi_abandoned_visit_blocks(mi_subproc_main(), -1, true, &visit_cb, &cs); bool stopped = cs.said_stop;
    if (cs.calls_after_stop > 0) fail_now("avisit-stop", "op#%ld the visitor of the abandoned walk returned false but was called %ld more time(s)", opi, cs.calls_after_stop);
    if (cs.stop > 0 && cs.calls > cs.stop) fail_now("avisit-stop", "op#%ld visitor returned false at block call %ld of the abandoned walk but %ld calls were made", opi, cs.stop, cs.calls);
    if (stopped && ret) fail_now("avisit-stop-ret", "op#%ld mi_abandoned_visit_blocks returned true although the visitor returned false", opi);
    if (stopped) flag(F_VISIT_STOP); }
  if (with_abandoned) { VisitCtx c; bool ok = mi_abandoned_visit_blocks(mi_subproc_main(), (int)op.snum("tag", -1), true, &visit_cb, &c); if (!ok) fail_now("avisit-ret", "op#%ld mi_abandoned_visit_blocks returned false although the visitor never did", opi);
    for (auto& v : c.blocks) { all.push_back(v); from.push_back(0); } if (!c.blocks.empty()) flag(F_ABANDONED_VISIT);
    for (int sp = 0; sp < 2; sp++) if (m.subprocs[sp]) { VisitCtx c2; mi_abandoned_visit_blocks(m.subprocs[sp], -1, true, &visit_cb, &c2); for (auto& v : c2.blocks) { all.push_back(v); from.push_back(100 + sp); } } }
  flag(F_VISIT); count(C_VISITED_BLOCKS, all.size());
  std::set<int> matched; size_t descriptors = 0;
  for (size_t i = 0; i < all.size(); i++) {
    uintptr_t lo = all[i].b, hi = lo + (all[i].s ? all[i].s : 1); int found = -1, nfound = 0;
    for (auto it = m.live.lower_bound(lo); it != m.live.end() && it->first < hi; ++it) { found = it->second; nfound++; }
    if (nfound > 1) fail_now("census-two", "op#%ld visited range [%p,+%zu) contains %d live blocks", opi, (void*)lo, all[i].s, nfound);
    if (nfound == 1) {
      Blk& b = m.slots[found];
      if ((uintptr_t)b.p + b.u > hi && b.u > 0) fail_now("census-enclose", "op#%ld visited range [%p,+%zu) does not enclose block %p usable %zu", opi, (void*)lo, all[i].s, b.p, b.u);
      if (!matched.insert(found).second) fail_now("census-twice", "op#%ld block %p reported twice (heap walks + abandoned walk)", opi, b.p);
      if (b.home <= -20 && from[i] != -20 - b.home + 100 && from[i] >= 0) fail_now("cross-subproc-adoption", "op#%ld block %p of sub-process %d is reported by %s of the main sub-process", opi, b.p, -20 - b.home, from[i] ? "a heap walk" : "the abandoned walk");
      if (from[i] == 0 && b.home >= 1 && !forced_abandon && !b.stranded) fail_now("census-abandoned-owned", "op#%ld abandoned walk reported block %p whose home is heap %d of a live thread", opi, b.p, b.home);
      if (from[i] >= 100 && b.home != -20 - (from[i] - 100)) fail_now("cross-subproc-adoption", "op#%ld the abandoned walk of sub-process %d reported block %p whose home is %d", opi, from[i] - 100, b.p, b.home);
      if (from[i] >= 1 && from[i] < 100 && b.home >= 1 && b.home != from[i] && !forced_abandon) fail_now("census-wrong-heap", "op#%ld heap %d walk reported block %p whose home is heap %d", opi, from[i], b.p, b.home);
    } else {
      bool desc = false; if ((from[i] == 1 || forced_abandon) && from[i] < 100) for (int g = 2; g < NHEAPS; g++) if (m.heaps[g].alive && (uintptr_t)m.heaps[g].h >= lo && (uintptr_t)m.heaps[g].h < hi) desc = true;
      if (desc) descriptors++; else fail_now("census-phantom", "op#%ld %s walk reported [%p,+%zu) which is not a live block", opi, from[i] ? "heap" : "abandoned", (void*)lo, all[i].s);
    }
  }
  for (auto& kv : m.live) { Blk& b = m.slots[kv.second]; if (matched.count(kv.second) || b.stranded) continue;
    bool must = with_abandoned ? (op.snum("tag", -1) < 0) : (b.home >= 1 && !forced_abandon);
    if (must) fail_now("census-missing", "op#%ld live block %p (n=%zu home=%d) is reported neither by a heap walk nor by the abandoned walk", opi, b.p, b.n, b.home); }
}

// ---------------------------------------------------------------- options / time / arenas
static const char* OPT_NAMES[] = { "show_errors","show_stats","verbose","eager_commit","arena_eager_commit","purge_decommits","allow_large_os_pages","reserve_huge_os_pages","reserve_huge_os_pages_at","reserve_os_memory","deprecated_segment_cache","deprecated_page_reset","abandoned_page_purge","deprecated_segment_reset","eager_commit_delay","purge_delay","use_numa_nodes","disallow_os_alloc","os_tag","max_errors","max_warnings","max_segment_reclaim","destroy_on_exit","arena_reserve","arena_purge_mult","purge_extend_delay","abandoned_reclaim_on_free","disallow_arena_alloc","retry_on_oom","visit_abandoned","guarded_min","guarded_max","guarded_precise","guarded_sample_rate","guarded_sample_seed","target_segments_per_thread","generic_collect" };
static int opt_index(const std::string& name) { for (int i = 0; i < (int)(sizeof OPT_NAMES / sizeof *OPT_NAMES); i++) if (name == OPT_NAMES[i]) return i; return -1; }

void Exec::op_opt(const Op& op) {
  int i = opt_index(op.str("name")); if (i < 0) return; long v = (long)op.snum("v");
  if (op.str("name") == "target_segments_per_thread" && v >= 2) forced_abandon = true;   // the thread's own segments may be abandoned at any allocation
  if (op.str("name") == "visit_abandoned") visit_abandoned_on = (v != 0);
  if (op.str("name") == "purge_delay") opt_purge_delay = v;
  if (op.str("name") == "purge_decommits") opt_purge_decommits = (v != 0);
  if (op.str("name") == "arena_purge_mult") opt_purge_mult = v;
#if defined(VF_DEBUG_BUILD)
  // debug build only: _mi_os_reset "pretends" an eager reset with memset(start,0,size) (MI_DEBUG>1 && !MI_SECURE), which faults when the
  // purged span is only partly committed (lazy commit + purge by reset). Release/secure builds issue only the madvise and are checked.
  if (op.str("name") == "purge_decommits" && v == 0) { count(C_EXCLUDED); return; }
#endif
  mi_option_set((mi_option_t)i, v);
}

void Exec::op_arena(const Op& op) {
  int i = (int)op.num("i"); if (i < 0 || i >= NARENAS || m.arenas[i].valid) return;
  size_t size = op.num("size", 64*MiB); bool commit = op.num("commit", 0) != 0, excl = op.num("excl", 0) != 0;
  ArenaInfo& A = m.arenas[i];
  if (op.str("how", "reserve") == "reserve") {
    int rc = mi_reserve_os_memory_ex(size, commit, false, excl, &A.id);
    if (rc != 0) { if (!allow_null) fail_now("arena-reserve", "op#%ld mi_reserve_os_memory_ex(%zu) failed with %d", opi, size, rc); return; }
  } else {
    size_t mis = op.num("mis", 0); size_t outer = size + 2 * SEGMENT_SIZE + mis + 64*KiB;
    uint8_t* base = (uint8_t*)mmap(nullptr, outer, commit ? (PROT_READ|PROT_WRITE) : PROT_NONE, MAP_PRIVATE|MAP_ANONYMOUS|MAP_NORESERVE, -1, 0);
    if (base == MAP_FAILED) return;
    uint8_t* start = (uint8_t*)(((uintptr_t)base + SEGMENT_SIZE - 1) & ~(uintptr_t)(SEGMENT_SIZE - 1)) + mis;
    A.outer = base; A.outer_size = outer; A.given = start; A.given_size = size;
    bool ok = mi_manage_os_memory_ex(start, size, commit, false, true /*zero*/, -1, excl, &A.id);
    if (!ok) { if (size >= 2*SEGMENT_SIZE + 0 && !allow_null && op.num("mustfit", 0)) fail_now("arena-manage", "op#%ld mi_manage_os_memory_ex(%p,%zu) refused", opi, start, size); munmap(base, outer); A.outer = nullptr; return; }
  }
  size_t asz = 0; A.start = (uint8_t*)mi_arena_area(A.id, &asz); A.size = asz; A.exclusive = excl; A.valid = true; flag(F_ARENA);
  if (A.given && (A.start < A.given || A.start + A.size > A.given + A.given_size)) fail_now("arena-bounds", "op#%ld arena area [%p,+%zu) exceeds the managed region [%p,+%zu)", opi, A.start, A.size, A.given, A.given_size);
}
