// `hist`: single-thread API histories against the shadow model (C01 C03 C04 C05 C06 C10 C12 C13 C17 ...).
#include <sys/wait.h>
#include <sys/prctl.h>
#include "hist_exec3.hpp"
#include "hist_gen.hpp"
#include "hist_special.hpp"

static Profile profile_for(const std::string& mode) {
  Profile p;
  if (mode == "C01") { p.w_defer = 2; p.rare_api = true; }
  else if (mode == "C03") { p.p_aligned = 70; p.w_realloc = 14; p.w_expand = 3; p.w_heap = 2; p.w_talloc = 2; }
  else if (mode == "C04") { p.p_zero = 55; p.w_realloc = 16; p.w_zchain = 14; p.w_tfree = 4; p.w_heap = 5; p.w_churn = 4; }
  else if (mode == "C05") { p.w_realloc = 30; p.w_expand = 5; p.w_alloc = 25; p.w_edge = 3; p.rare_api = true; }
  else if (mode == "C06") { p.w_edge = 25; p.big_ok = false; }
  else if (mode == "C10") { p.w_heap = 16; p.p_heap_api = 60; p.w_tfree = 3; p.w_talloc = 3; p.arenas = true; p.big_ok = false; }
  else if (mode == "C12") { p.w_visit = 12; p.w_fill = 12; p.w_holes = 10; p.stop_visits = true; p.w_tfree = 4; p.w_talloc = 2; p.big_ok = false; p.w_defer = 3; }
  else if (mode == "C09") { p.w_talloc = 12; p.w_tfree = 6; p.w_collect = 6; p.w_visit = 6; p.w_heap = 2; p.big_ok = false; p.w_fill = 8; p.w_churn = 4; }
  else if (mode == "C13") { p.w_tick = 9; p.w_collect = 6; p.w_visit = 4; p.p_aligned = 25; p.p_zero = 30; p.w_realloc = 12; p.w_zchain = 4; p.stop_visits = true; }
  return p;
}

struct HistHarness : eng::Harness {
  std::vector<std::string> flag_names() override { return std::vector<std::string>(FLAG_NAMES, FLAG_NAMES + F_NFLAGS); }
  std::vector<std::string> counter_names() override { return std::vector<std::string>(COUNTER_NAMES, COUNTER_NAMES + C_NCOUNTERS); }
  void zygote_init(const std::string& zmode) override {
    // transparent huge pages make every first touch zero 2 MiB (13x slower cases); disabled at the OS level, the allocator code path is unchanged
    prctl(PR_SET_THP_DISABLE, 1, 0, 0, 0);
    init_classes(); init_strsrc(); vf_clock_virtual(1);
    if (zmode == "C07") {   // learned in a throw-away child so that the zygote (and with it every case) still starts with an untouched allocator
      int fd[2]; if (pipe(fd) == 0) { pid_t pid = fork(); if (pid == 0) { learn_thread_metadata_len(); size_t buf[8] = { 0 }; size_t n = std::min<size_t>(g_td_lens.size(), 7); buf[0] = n; for (size_t i = 0; i < n; i++) buf[1 + i] = g_td_lens[i]; ssize_t w = write(fd[1], buf, sizeof buf); (void)w; _exit(0); }
        close(fd[1]); size_t buf[8] = { 0 }; if (pid > 0 && read(fd[0], buf, sizeof buf) == (ssize_t)sizeof buf) for (size_t i = 0; i < buf[0] && i < 7; i++) g_td_lens.push_back(buf[1 + i]); close(fd[0]); if (pid > 0) waitpid(pid, nullptr, 0); } } }
  // C07: fault enumeration. Workload j = idx / PER is probed fault-free once (OS calls per kind up to `recover`), then every
  // (kind, k, once|persistent) with k below the measured count is one case; slots beyond the list are skipped.
  struct { uint64_t wl = UINT64_MAX; Case base; std::vector<std::tuple<int, long, int>> list; } c07;
  static const uint64_t C07_PER = 640;
  Case generate_c07(uint64_t idx) {
    uint64_t wl = idx / C07_PER, f = idx % C07_PER;
    if (c07.wl != wl) {
      Chooser wch(eng::mix(eng::mix(seed, 0xC07), wl)); c07.base = gen_c07_workload(wch); c07.wl = wl; c07.list.clear();
      eng::Outcome o = eng::run_forked(*this, "C07", c07.base, timeout_s);
      if (o.status == eng::ST_PASS) {
        const char* tier = getenv("VERIF_TIER"); bool thorough = tier && std::string(tier) == "thorough";
        static const int kinds[5] = { VF_MAP, VF_UNMAP, VF_COMMIT, VF_PROTECT, VF_ADVISE }; static const int cidx[5] = { C_OS_MAP, C_OS_UNMAP, C_OS_COMMIT, C_OS_PROTECT, C_OS_ADVISE };
        for (int ki = 0; ki < 5; ki++) { long n = (long)o.res.counters[cidx[ki]]; long dense = thorough ? 200 : 40;
          for (long k = 0; k < n; k += (k < dense ? 1 : (thorough ? 3 : 9))) for (int pers = 0; pers < 2; pers++) c07.list.push_back({ kinds[ki], k, pers }); }
      }
    }
    if (f >= c07.list.size()) { Case s; s.push_back(Op("skip")); return s; }
    static const char* KN[] = { "map", "unmap", "commit", "protect", "advise", "other" };
    Case c = c07.base; auto [kind, k, pers] = c07.list[f];
    for (auto& op : c) if (op.name == "fault") { op.kv.clear(); op.s("kind", KN[kind]).u("k", (uint64_t)k).u("pers", (uint64_t)pers); }
    return c;
  }
  Case generate(const std::string& mode, Chooser& ch, uint64_t idx) override {
    if (mode == "C07") return generate_c07(idx);
    Case special; if (generate_special(mode, ch, idx, special)) return special;
    Profile pf = profile_for(mode); Gen g(ch, pf);
    if (mode == "C13") { gen_option_prefix(g, idx); g.pf.min_ops += (int)g.out.size(); g.pf.max_ops += (int)g.out.size(); }
    bool c09_quiesce = false;
    if (mode == "C09") { g.out.push_back(Op("opt").s("name", "visit_abandoned").u("v", 1)); g.census_ok = true; c09_quiesce = true;
      if (ch.chance(1, 2)) g.out.push_back(Op("opt").s("name", "abandoned_reclaim_on_free").u("v", 1)); if (ch.chance(1, 3)) g.out.push_back(Op("opt").s("name", "disallow_arena_alloc").u("v", 1)); if (ch.chance(1, 4)) g.out.push_back(Op("opt").s("name", "max_segment_reclaim").u("v", 100));
      if (ch.chance(1, 3)) { g.out.push_back(Op("opt").s("name", "target_segments_per_thread").u("v", ch.chance(1, 2) ? 2 : 4)); g.forced = true; }
      if (ch.chance(1, 2)) { g.subprocs = true; g.out.push_back(Op("subproc").u("i", 0)); if (ch.chance(1, 3)) g.out.push_back(Op("subproc").u("i", 1)); }
      else if (ch.chance(1, 2)) g.forced = true;   // (mi_collect_reduce ops)
      if (g.forced) g.out.push_back(Op("cfg").u("forced", 1));   // forced abandonment (option or mi_collect_reduce) may occur: attribution-dependent clauses are off from the start
      g.pf.min_ops += 7; g.pf.max_ops += 7; }
    // helper threads leave blocks behind in several modes: with reclaim-on-free the first free by the main thread adopts the whole segment
    if ((mode == "C01" || mode == "C10" || mode == "C12" || mode == "C03") && ch.chance(1, 4)) { g.out.push_back(Op("opt").s("name", "abandoned_reclaim_on_free").u("v", 1)); g.pf.min_ops++; g.pf.max_ops++; }
    if ((mode == "C12" && ch.chance(1, 2)) || mode == "C13") { g.out.push_back(Op("opt").s("name", "visit_abandoned").u("v", 1)); g.census_ok = true; g.pf.min_ops++; g.pf.max_ops++; }
    if (mode == "C13" && ch.chance(1, 25)) {
      // an arena with more than 64 blocks (more than one bitmap field): 66-72 huge blocks take one arena block each, the highest ones are freed, the
      // delay passes, and ordinary activity makes the arena purge them -- while the blocks with the same bit position in the first field are live
      g.out.push_back(Op("opt").s("name", "arena_reserve").u("v", (uint64_t)4 * 1024 * 1024)); int k = (int)ch.range(66, 72);
      if (g.next_slot + k < NSLOTS) { int s0 = g.next_slot; g.next_slot += k; g.out.push_back(Op("fill").u("s", (uint64_t)s0).u("k", (uint64_t)k).s("f", "malloc").u("n", (size_t)ch.range(17*MiB, 20*MiB)).u("nt", 1)); for (int i = 0; i < k; i++) g.note_alloc(s0 + i, 17*MiB, 1, 0, false, g.def); g.groups.push_back({ s0, k, 17*MiB });
        int hi = (int)ch.range(2, 4); g.out.push_back(Op("rfree").u("s", (uint64_t)(s0 + k - 1 - hi)).u("k", (uint64_t)hi).u("step", 1).u("ph", 0)); for (int i = 0; i < hi; i++) g.note_free(s0 + k - 1 - hi + i);
        g.out.push_back(Op("tick").u("ms", 3000)); g.out.push_back(Op("free").u("s", (uint64_t)(s0 + k - 1))); g.note_free(s0 + k - 1); g.out.push_back(Op("collect").u("force", 0)); g.out.push_back(Op("verify")); g.pf.min_ops += 7; g.pf.max_ops += 7; } }
    Case c = g.history();
    if (c09_quiesce) c.push_back(Op("quiesce"));
    return c;
  }
  void execute(const std::string& mode, const Case& c, Result& r) override {
    Exec ex(r, mode);
    ex.check_own = (mode == "C10");
    ex.check_zero = (mode == "C04" || mode == "C13");
    ex.check_align = (mode == "C03" || mode == "C13");
    ex.police_purge = (mode == "C13");
    if (execute_special(mode, c, ex)) return;
    if (ex.police_purge || mode == "C18") install_purge_police(ex);
    if (mode == "C07") vf_set_event_fn(&c07_event);
    if (mode == "C15") { ex.check_arena = true; vf_set_event_fn(&c15_event); }
    ex.run(c);
  }
};

int main(int argc, char** argv) { HistHarness h; return eng::main_driver(h, argc, argv); }
