// libFuzzer front-end for C20: the same checks as `opts`, driven by coverage-guided bytes. A structure-aware decode keeps every input
// meaningful (no input is rejected); the semantic oracle (reference parser, terminator/length checks) traps on a violation, ASan and
// -fsanitize=bounds catch memory errors. State is reset per iteration (option table entry, environ, heap buffers).
#define main opts_main_unused
#include "opts.c"
#undef main

static int fz_init_done;
static void fz_init(void) {
  if (fz_init_done) return; fz_init_done = 1;
  // (stderr stays open: libFuzzer reports its statistics there; allocator messages go to the registered sink)
  mi_register_output(&sink, NULL);
  for (int i = 0; i < _mi_option_last; i++) { (void)mi_option_get((mi_option_t)i); defaults[i] = options[i].value; }
  mi_register_output(&sink, NULL); check_json(0);
}
int LLVMFuzzerTestOneInput(const uint8_t* data, size_t size) {
  fz_init(); if (size < 4) return 0;
  unsigned sel = data[0] % 12; long before = n_viol;
  if (sel <= 6) { int opt = data[1] % _mi_option_last; if (sel >= 4) opt = (data[1] & 1) ? mi_option_arena_reserve : mi_option_reserve_os_memory;
    static char val[600]; size_t n = size - 3; if (n > 590) n = 590; memcpy(val, data + 3, n); val[n] = 0;   // (an embedded NUL ends the value, as in a real environment)
    check_env(opt, data[2] % 6, val, data[2] >> 6, -1); }
  else if (sel == 7 || sel == 8) { uint64_t fs = 0; for (size_t i = 1; i < 9 && i < size; i++) fs = (fs << 8) | data[i]; size_t bs = (size > 10 ? ((size_t)data[9] << 8 | data[10]) % 601 : 64);
    uint64_t save = rng_s; rng_s = fs; static char fmt[600]; static char strs[4][4200]; uintptr_t a[4] = { 0, 0, 0, 0 }; int hw; build_format(fmt, sizeof fmt, a, strs, &hw);
    if (sel == 8) { static char big[20000]; int full = _mi_snprintf(big, sizeof big, fmt, a[0], a[1], a[2], a[3]); if (full >= 0) bs = (size_t)full + (data[1] % 5) >= 2 ? (size_t)full + (data[1] % 5) - 2 : 0; }
    char rp[64]; snprintf(rp, sizeof rp, "fmtseed %" PRIu64, fs); check_snprintf_once(fmt, a, bs, rp, 0); rng_s = save; }
  else if (sel == 9) check_strl(data[1] % 81, data[2] % 81, data[3] % 81);
  else if (sel == 10) check_json(((size_t)data[1] << 8 | data[2]) % (json_full_len + 4));
  else { long v = 0; for (size_t i = 2; i < 10 && i < size; i++) v = (long)(((unsigned long)v << 8) | data[i]); check_option_api(data[1] % _mi_option_last, v); }
  if (n_viol != before) { fprintf(stdout, "SEMANTIC-VIOLATION %s\n", viol[(n_viol - 1) % 8]); fflush(stdout); __builtin_trap(); }
  return 0;
}
