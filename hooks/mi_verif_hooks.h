/* Scheduling hooks for the deterministic scheduler (harness `sched`).
   Included twice from include/mimalloc/atomic.h when MI_VERIF_HOOKS is defined (guard), see MI_VERIF_HOOKS_STAGE. */
#if MI_VERIF_HOOKS_STAGE == 1
#ifndef MI_VERIF_HOOKS_STAGE1_DONE
#define MI_VERIF_HOOKS_STAGE1_DONE
#ifdef __cplusplus
#error "the sched variants compile mimalloc as C"
#endif
enum { MI_VF_LOAD = 0, MI_VF_STORE, MI_VF_XCHG, MI_VF_RMW, MI_VF_CAS, MI_VF_LOCK, MI_VF_UNLOCK };
void mi_verif_point(const volatile void* addr, int kind);   /* scheduling point before an atomic operation */
int  mi_verif_cas_weak_fail(void);                          /* 1: this weak CAS fails spuriously */
void mi_verif_spin(void);                                   /* the calling thread cannot make progress right now */
#undef  mi_atomic
#define mi_atomic(name)  mi_verif_##name
/* every wrapper evaluates its pointer argument exactly once (statement expressions) */
#define mi_verif_load_explicit(p,mo)           __extension__({ __typeof__(p) _vp = (p); mi_verif_point(_vp, MI_VF_LOAD);  atomic_load_explicit(_vp, mo); })
#define mi_verif_store_explicit(p,x,mo)        __extension__({ __typeof__(p) _vp = (p); mi_verif_point(_vp, MI_VF_STORE); atomic_store_explicit(_vp, x, mo); })
#define mi_verif_exchange_explicit(p,x,mo)     __extension__({ __typeof__(p) _vp = (p); mi_verif_point(_vp, MI_VF_XCHG);  atomic_exchange_explicit(_vp, x, mo); })
#define mi_verif_fetch_add_explicit(p,x,mo)    __extension__({ __typeof__(p) _vp = (p); mi_verif_point(_vp, MI_VF_RMW);   atomic_fetch_add_explicit(_vp, x, mo); })
#define mi_verif_fetch_sub_explicit(p,x,mo)    __extension__({ __typeof__(p) _vp = (p); mi_verif_point(_vp, MI_VF_RMW);   atomic_fetch_sub_explicit(_vp, x, mo); })
#define mi_verif_fetch_and_explicit(p,x,mo)    __extension__({ __typeof__(p) _vp = (p); mi_verif_point(_vp, MI_VF_RMW);   atomic_fetch_and_explicit(_vp, x, mo); })
#define mi_verif_fetch_or_explicit(p,x,mo)     __extension__({ __typeof__(p) _vp = (p); mi_verif_point(_vp, MI_VF_RMW);   atomic_fetch_or_explicit(_vp, x, mo); })
#define mi_verif_compare_exchange_strong_explicit(p,e,d,ms,mf) \
  __extension__({ __typeof__(p) _vp = (p); mi_verif_point(_vp, MI_VF_CAS); atomic_compare_exchange_strong_explicit(_vp, e, d, ms, mf); })
/* a spurious failure is a legal outcome of a weak CAS: it reports the current value in *e and returns false */
#define mi_verif_compare_exchange_weak_explicit(p,e,d,ms,mf) \
  __extension__({ __typeof__(p) _vp = (p); __typeof__(e) _ve = (e); mi_verif_point(_vp, MI_VF_CAS); \
     (mi_verif_cas_weak_fail() ? (*_ve = atomic_load_explicit(_vp, memory_order_relaxed), (_Bool)0) : atomic_compare_exchange_weak_explicit(_vp, _ve, d, ms, mf)); })
#endif
#elif MI_VERIF_HOOKS_STAGE == 2
#ifndef MI_VERIF_HOOKS_STAGE2_DONE
#define MI_VERIF_HOOKS_STAGE2_DONE
/* a blocked virtual thread hands the processor on instead of spinning / blocking the only running thread */
static inline void mi_verif_yield_(void) { mi_verif_spin(); }
#define mi_atomic_yield()  mi_verif_yield_()
static inline bool mi_verif_lock_try_acquire_(mi_lock_t* lock) { mi_verif_point(lock, MI_VF_LOCK); return mi_lock_try_acquire(lock); }
static inline void mi_verif_lock_acquire_(mi_lock_t* lock) { while (!mi_verif_lock_try_acquire_(lock)) { mi_verif_spin(); } }
static inline void mi_verif_lock_release_(mi_lock_t* lock) { mi_verif_point(lock, MI_VF_UNLOCK); mi_lock_release(lock); }
#define mi_lock_try_acquire(l)  mi_verif_lock_try_acquire_(l)
#define mi_lock_acquire(l)      mi_verif_lock_acquire_(l)
#define mi_lock_release(l)      mi_verif_lock_release_(l)
#endif
#endif
