#!/bin/sh
# Rebuild the repository's own build (guard MI_VERIF_HOOKS off: it is never defined by cmake) and run its test suite.
set -e
REPO=${VERIF_REPO:-/repo}
BDIR=${1:-$REPO/_build}
cmake -G Ninja -S "$REPO" -B "$BDIR" -DCMAKE_BUILD_TYPE=RelWithDebInfo >/dev/null
cmake --build "$BDIR"
ctest --test-dir "$BDIR" -j8 --timeout 900
