#!/usr/bin/env python3
"""Run the registered checks against the seeded changes kept under /verif/seeded/<name>/.
usage: seeded.py [name ...] [--tier quick] [--checks C01,C05]
For each: git -C /repo apply patch.diff ; ./vcheck run <property> ; git -C /repo checkout -- . ; records detected / missed in seeded/results.json"""
import sys, os, json, subprocess, time
ROOT = "/verif"; REPO = "/repo"
# --scratch <worktree>: apply the change in a scratch worktree of /repo instead (own build/out/evidence dirs), so /repo stays usable meanwhile
SCRATCH = None
for i, a in enumerate(sys.argv):
    if a == "--scratch": SCRATCH = sys.argv[i + 1]
ENV = dict(os.environ)
if SCRATCH:
    REPO = SCRATCH; ENV["VERIF_REPO"] = SCRATCH; ENV["VERIF_STATE_DIR"] = SCRATCH + "-state"; os.makedirs(SCRATCH + "-state", exist_ok=True)
args = [a for a in sys.argv[1:] if not a.startswith("--")]
tier = "quick"
override = None
for i, a in enumerate(sys.argv):
    if a == "--tier": tier = sys.argv[i + 1]
    if a == "--checks": override = sys.argv[i + 1].split(",")
args = [a for a in args if a not in (tier, SCRATCH) and (override is None or a != ",".join(override)) and not a.endswith(".json")]
names = args or sorted(d for d in os.listdir(os.path.join(ROOT, "seeded")) if os.path.isdir(os.path.join(ROOT, "seeded", d)))
resf = os.path.join(ROOT, "seeded", "results.json")
for i, a in enumerate(sys.argv):
    if a == "--results": resf = sys.argv[i + 1]   # (a second concurrent run writes its own file; merge afterwards)
results = json.load(open(resf)) if os.path.exists(resf) else {}
if SCRATCH:
    head = subprocess.run(["git", "-C", "/repo", "rev-parse", "HEAD"], capture_output=True, text=True).stdout.strip()
    if not os.path.isdir(SCRATCH): subprocess.run(["git", "-C", "/repo", "worktree", "add", "--detach", SCRATCH, head], capture_output=True)   # created on demand; remove it with `git -C /repo worktree remove --force`
    subprocess.run(["git", "-C", SCRATCH, "checkout", "-q", "--detach", head])   # the scratch worktree follows /repo's HEAD
if subprocess.run(["git", "-C", REPO, "status", "--porcelain", "--untracked-files=no"], capture_output=True, text=True).stdout.strip():
    print("refusing: /repo has uncommitted changes"); sys.exit(2)
for n in names:
    d = os.path.join(ROOT, "seeded", n)
    meta = json.load(open(os.path.join(d, "meta.json")))
    checks = override or meta.get("checks") or [meta["property"]]
    r = subprocess.run(["git", "-C", REPO, "apply", os.path.join(d, "patch.diff")], capture_output=True, text=True)
    if r.returncode != 0:
        print(n, "PATCH DOES NOT APPLY:", r.stderr.strip()); results[n] = {"error": "patch does not apply"}; continue
    try:
        for c in checks:
            t0 = time.time()
            p = subprocess.run([os.path.join(ROOT, "vcheck"), "run", c, "--tier", tier], cwd=ROOT, capture_output=True, text=True, env=ENV)
            viol = [l for l in p.stdout.splitlines() if l.startswith("VIOLATION")]
            detail = [l.strip() for l in p.stdout.splitlines() if l.startswith("  variant=")]
            results.setdefault(n, {})[c + ":" + tier] = {"detected": p.returncode == 1 and bool(viol), "rc": p.returncode, "wall_s": round(time.time() - t0, 1), "first": (detail[0][:300] if detail else "")}
            print(n, c, tier, "DETECTED" if (p.returncode == 1 and viol) else "missed rc=%d" % p.returncode, "%.0fs" % (time.time() - t0), (detail[0][:160] if detail else ""), flush=True)
    finally:
        subprocess.run(["git", "-C", REPO, "checkout", "--", "."])
    json.dump(results, open(resf, "w"), indent=1, sort_keys=True)
