#!/usr/bin/env python3
# Regenerate the table of DESIGN.md §13 from seeded/*/meta.json and seeded/results.json (rows between the table header and the first blank line).
import json, os, glob, re
ROOT = os.path.dirname(os.path.dirname(os.path.abspath(__file__)))
res = json.load(open(os.path.join(ROOT, "seeded", "results.json")))
rows = []
for d in sorted(glob.glob(os.path.join(ROOT, "seeded", "*-m*"))):
    name = os.path.basename(d); meta = json.load(open(os.path.join(d, "meta.json")))
    r = res.get(name, {})
    det = sorted({k.split(":")[0] for k, v in r.items() if isinstance(v, dict) and v.get("detected")}); miss = sorted({k.split(":")[0] for k, v in r.items() if isinstance(v, dict) and not v.get("detected")} - set(det))
    rows.append("| %s | %s | %s | %s |" % (name, meta["breaks"].replace("|", "/"), ", ".join(det) or "**none**", ", ".join(miss) or "-"))
p = os.path.join(ROOT, "DESIGN.md"); s = open(p).read()
hdr = "| seeded change | what it breaks | detected by (quick tier) | not detected by |\n|---|---|---|---|\n"
i = s.index(hdr) + len(hdr); j = s.index("\n\n", i)
open(p, "w").write(s[:i] + "\n".join(rows) + s[j:])
print("%d rows" % len(rows))
