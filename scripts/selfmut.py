#!/usr/bin/env python3
"""Sensitivity mutants written by the author of the checks (NOT the independent seeded changes of seeded/<id>-m<k>/).

Each entry is one small textual change to mimalloc.  For every entry: apply it in the scratch worktree, build the repository's own
suite there (the change only counts if the suite still passes), run the quick tier of the listed checks with VERIF_REPO pointing at the
scratch worktree, record DETECTED / missed in seeded/self_results.json, undo.  Usage: selfmut.py [names...] [--scratch DIR] [--list]
"""
import json, os, subprocess, sys, time

ROOT = os.path.dirname(os.path.dirname(os.path.abspath(__file__)))
M = []
def mut(name, file, old, new, checks, note): M.append(dict(name=name, file=file, old=old, new=new, checks=checks, note=note))

mut("zero-flag-kept", "src/page.c", "      page->local_free = NULL;\n      page->free_is_zero = false;\n    }\n    else if (force) {",
    "      page->local_free = NULL;\n    }\n    else if (force) {", ["C04"], "EQUIVALENT in this version (page->is_zero_init is never set, so free_is_zero is always false): freed blocks join a free list that still claims to be zero")
mut("zero-next-kept", "src/alloc.c", "    if (page->free_is_zero) {\n      block->next = 0;", "    if (page->free_is_zero) {", ["C04"], "EQUIVALENT in this version (free_is_zero is always false): zalloc from a zero page leaves the free-list link in the first word")
mut("align-adjust", "src/alloc-aligned.c", "(poffset == 0 ? 0 : alignment - poffset)", "(alignment - poffset)", ["C01", "C03"], "over-allocating aligned path always adjusts: an already aligned block is moved up by `alignment`")
mut("usable-aligned", "src/free.c", "const size_t aligned_size = (size - adjust);", "const size_t aligned_size = size; (void)adjust;", ["C01", "C03"], "usable size of an interior (aligned) pointer ignores the adjustment")
mut("arena-purge-keeps-committed", "src/arena.c", "  if (needs_recommit) {\n    _mi_bitmap_unclaim_across(arena->blocks_committed,", "  if (needs_recommit && blocks > 1) {\n    _mi_bitmap_unclaim_across(arena->blocks_committed,", ["C13", "C18"], "single arena blocks stay marked committed after a decommitting purge")
mut("bitmap-last-position", "src/bitmap.c", "const size_t bitidx_max = MI_BITMAP_FIELD_BITS - count;", "const size_t bitidx_max = MI_BITMAP_FIELD_BITS - count - (count > 1 ? 1 : 0);", ["C15", "C14"], "a multi-block claim never uses the last position of a field")
mut("expand-equal", "src/alloc.c", "  if (newsize > size) return NULL;\n  return p; // it fits", "  if (newsize >= size) return NULL;\n  return p; // it fits", ["C05", "C03"], "mi_expand to exactly the usable size fails")
mut("arena-dirty-claims-zero", "src/arena.c", "memid->initially_zero = _mi_bitmap_claim_across(arena->blocks_dirty, arena->field_count, needed_bcount, bitmap_index, NULL, NULL);",
    "_mi_bitmap_claim_across(arena->blocks_dirty, arena->field_count, needed_bcount, bitmap_index, NULL, NULL); memid->initially_zero = (needed_bcount > 1);", ["C04"], "re-used multi-block arena memory is reported as zero")
mut("os-aligned-offset", "src/os.c", "const size_t extra = _mi_align_up(offset, alignment) - offset;", "const size_t extra = _mi_align_up(offset, alignment) - (offset & ~(size_t)0xFFFF);", ["C03"], "huge-alignment blocks: the offset correction drops the low 16 bits")
mut("posix-memalign-natural", "src/alloc-posix.c", "  if ((alignment % sizeof(void*)) != 0) return EINVAL;                 // natural alignment\n", "", ["C06"], "posix_memalign accepts alignments that are not a multiple of sizeof(void*)")
mut("tf-collect-bound", "src/page.c", "while ((next = mi_block_next(page,tail)) != NULL && count <= max_count) {", "while ((next = mi_block_next(page,tail)) != NULL && count < max_count) {", ["C02", "C08"], "collecting a thread-free list that holds every block of the page is reported as corruption and dropped")
mut("delayed-giveup", "src/page.c", "if (yield_count >= 4) return false;  // give up after 4 tries", "if (yield_count >= 4) return true;  // give up after 4 tries", ["C02", "C08", "C10"], "owner stops waiting for a remote freer that is in the DELAYED_FREEING window and goes on as if the flag were set")
mut("retire-forever", "src/page.c", "        if (force || page->retire_expire == 0) {", "        if (page->retire_expire == 0) {", ["C11", "C08"], "a forced collect no longer frees retired (empty) pages at once")
mut("unfull-on-local-free", "src/free.c", "  else if mi_unlikely(check_full && mi_page_is_in_full(page)) {\n    _mi_page_unfull(page);", "  else if mi_unlikely(check_full && mi_page_is_in_full(page) && page->used + 1 < page->capacity) {\n    _mi_page_unfull(page);", ["C08", "C01"], "the first free into a full page does not take it out of the full queue")

mut("requeue-dropped", "src/page.c", "      all_freed = false;\n      mi_block_t* dfree = mi_atomic_load_ptr_relaxed(mi_block_t, &heap->thread_delayed_free);\n      do {\n        mi_block_set_nextx(heap, block, dfree, heap->keys);\n      } while (!mi_atomic_cas_ptr_weak_release(mi_block_t,&heap->thread_delayed_free, &dfree, block));",
    "      all_freed = false;", ["C08", "C02"], "a delayed block whose page is still in the DELAYED_FREEING window is dropped instead of re-queued (needs the owner's bounded wait to give up)")
mut("requeue-break", "src/page.c", "      } while (!mi_atomic_cas_ptr_weak_release(mi_block_t,&heap->thread_delayed_free, &dfree, block));\n    }\n    block = next;", "      } while (!mi_atomic_cas_ptr_weak_release(mi_block_t,&heap->thread_delayed_free, &dfree, block));\n      break;\n    }\n    block = next;", ["C08", "C02"], "after re-queueing one contended block the rest of the taken-over delayed list is forgotten")

def sh(cmd, **kw): return subprocess.run(cmd, shell=isinstance(cmd, str), stdout=subprocess.PIPE, stderr=subprocess.STDOUT, text=True, **kw)

def main():
    args = sys.argv[1:]; scratch = "/tmp/wt/confirm"
    if "--scratch" in args: i = args.index("--scratch"); scratch = args[i + 1]; del args[i:i + 2]
    if "--list" in args:
        for m in M: print(m["name"], m["file"], m["checks"], "-", m["note"])
        return
    names = args or [m["name"] for m in M]
    head = sh(["git", "-C", "/repo", "rev-parse", "HEAD"]).stdout.strip()
    if not os.path.isdir(scratch): sh(["git", "-C", "/repo", "worktree", "add", "--detach", scratch, head])
    sh(["git", "-C", scratch, "checkout", "-q", "--detach", head]); sh(["git", "-C", scratch, "checkout", "-q", "--", "."])
    resp = os.path.join(ROOT, "seeded", "self_results.json"); res = json.load(open(resp)) if os.path.exists(resp) else {}
    env = dict(os.environ, VERIF_REPO=scratch, VERIF_STATE_DIR=scratch + "-state"); os.makedirs(scratch + "-state", exist_ok=True)
    for m in M:
        if m["name"] not in names: continue
        path = os.path.join(scratch, m["file"]); src = open(path).read(); n = src.count(m["old"])
        if n != 1: print(m["name"], "ANCHOR-COUNT", n); res[m["name"]] = {"error": "anchor found %d times" % n}; continue
        open(path, "w").write(src.replace(m["old"], m["new"]))
        try:
            r = sh("cmake -G Ninja -S %s -B %s/_build -DCMAKE_BUILD_TYPE=RelWithDebInfo >/dev/null && rm -f %s/_build/mimalloc.o && cmake --build %s/_build 2>&1 | tail -3 && ctest --test-dir %s/_build -j8 --timeout 900 2>&1 | tail -3" % ((scratch,) * 5))
            suite = "100% tests passed" in r.stdout
            entry = {"note": m["note"], "file": m["file"], "suite_passes": suite, "checks": {}}
            for c in m["checks"]:
                t0 = time.time(); rr = sh([os.path.join(ROOT, "vcheck"), "run", c, "--tier", "quick"], env=env)
                viol = [l for l in rr.stdout.splitlines() if l.startswith("VIOLATION")]; first = [l.strip() for l in rr.stdout.splitlines() if "clause=" in l][:1]
                entry["checks"][c] = {"detected": rr.returncode == 1 and bool(viol), "rc": rr.returncode, "first": (first[0][:240] if first else ""), "wall_s": round(time.time() - t0, 1)}
                print(m["name"], c, "suite=" + ("pass" if suite else "FAIL"), "DETECTED" if entry["checks"][c]["detected"] else "missed rc=%d" % rr.returncode, entry["checks"][c]["first"][:160], flush=True)
            res[m["name"]] = entry
        finally:
            sh(["git", "-C", scratch, "checkout", "-q", "--", "."])
        json.dump(res, open(resp, "w"), indent=1, sort_keys=True)
    json.dump(res, open(resp, "w"), indent=1, sort_keys=True)

if __name__ == "__main__": main()
