#!/bin/sh
# usage: confirm_mutant.sh <worktree> <mutant-dir>   -- independent confirmation of a sub-agent's seeded change
# checks: patch applies, builds, test-suite passes with it, demo fails with it and passes without it. Leaves the worktree clean.
WT=$1; M=$2; LOG=$M/confirm.log
cd "$WT" || exit 2
git checkout -q -- . ; : > "$LOG"
git apply --check "$M/patch.diff" >> "$LOG" 2>&1 || { echo "RESULT patch-does-not-apply" | tee -a "$LOG"; exit 1; }
git apply "$M/patch.diff"
cmake -G Ninja -S "$WT" -B "$WT/_build" -DCMAKE_BUILD_TYPE=RelWithDebInfo >> "$LOG" 2>&1
rm -f "$WT/_build/mimalloc.o"; cmake --build "$WT/_build" >> "$LOG" 2>&1 || { echo "RESULT build-fails" | tee -a "$LOG"; git checkout -q -- .; exit 1; }
if ctest --test-dir "$WT/_build" -j8 --timeout 900 >> "$LOG" 2>&1; then SUITE=pass; else SUITE=FAIL; fi
DEMO=$(ls "$M"/demo.c "$M"/demo.cpp 2>/dev/null | head -1)
CC=gcc; case "$DEMO" in *.cpp) CC=g++;; esac
if [ -f "$M/run.sh" ] && [ ! -f "$M/build.sh" ]; then cp "$M/run.sh" "$M/build.sh"; fi
if [ -f "$M/build.sh" ]; then
  # the sub-agent supplied its own build+run script (it expects to live in <worktree>/seeded/<m>/ and builds from the worktree state)
  ( cd "$M" && timeout 900 sh ./build.sh >> "$LOG" 2>&1 ); RC_MUT=$?
  git checkout -q -- .
  rm -f "$WT/_build/mimalloc.o"; cmake --build "$WT/_build" >> "$LOG" 2>&1
  ( cd "$M" && timeout 900 sh ./build.sh >> "$LOG" 2>&1 ); RC_CLEAN=$?
else
$CC -O1 -I"$WT/include" "$DEMO" "$WT/_build/libmimalloc.a" -lpthread -o "$M/demo_mut" >> "$LOG" 2>&1
( cd "$M" && timeout 300 ./demo_mut >> "$LOG" 2>&1 ); RC_MUT=$?
git checkout -q -- .
cmake --build "$WT/_build" >> "$LOG" 2>&1
$CC -O1 -I"$WT/include" "$DEMO" "$WT/_build/libmimalloc.a" -lpthread -o "$M/demo_clean" >> "$LOG" 2>&1
( cd "$M" && timeout 300 ./demo_clean >> "$LOG" 2>&1 ); RC_CLEAN=$?
rm -f "$M/demo_mut" "$M/demo_clean"
fi
echo "RESULT suite=$SUITE demo_with_patch_rc=$RC_MUT demo_clean_rc=$RC_CLEAN" | tee -a "$LOG"
[ "$SUITE" = pass ] && [ "$RC_MUT" != 0 ] && [ "$RC_CLEAN" = 0 ]
