import sys,re
id,wt,f1,f2=sys.argv[1:5]
s=open(''+__import__('os').path.dirname(__import__('os').path.abspath(__file__))+'/%s.txt'%id).read()
s=s.replace('/tmp/wt/%s-scratch'%id,'/tmp/wt/%s-scratch'%wt)
s=re.sub(r'/tmp/wt/%s(?![\w-])'%id, '/tmp/wt/%s'%wt, s)
add=('Location constraint: mutant 1 must change code in %s and mutant 2 must change code in %s (each mutant in that one file only). Look for a mechanism in that file that the property depends on; '
     'prefer subtle changes in less obvious code paths (rarely used API variants, boundary sizes, option-dependent paths, multi-step histories). If, after a serious attempt, no change in the assigned file can '
     'break the property while passing the test suite, say so in notes.md and use another file for that mutant.\n\n' % (f1,f2))
assert 'Task: produce TWO different, independent source changes' in s
s=s.replace('Task: produce TWO different, independent source changes', add+'Task: produce TWO different, independent source changes',1)
left=re.findall(r'/tmp/wt/%s(?![\w-]).{0,12}'%id, s); assert not left, left
open('/tmp/wt/%s/TASK.md'%wt,'w').write(s)
