import sys,re,os
id,wt=sys.argv[1:3]
s=open('/verif/scripts/subagent/%s.txt'%id).read()
s=s.replace('/tmp/wt/%s-scratch'%id,'/tmp/wt/%s-scratch'%wt)
s=re.sub(r'/tmp/wt/%s(?![\w-])'%id, '/tmp/wt/%s'%wt, s)
add=('Style constraint for this round. The examples of mechanisms given under (3) below are the obvious ones; do NOT use them literally, find others.\n'
 ' * Mutant 1 must be a TWO-SITE change: two edits in two different functions (preferably two different files), written so that each edit on its own is harmless '
 '(with only edit A, or only edit B, your demo passes and the property holds as far as you can tell — e.g. A weakens a check that B\'s original code made redundant, or A changes what a field means on one path and B is the only reader on that path), '
 'and only both together break the property. In notes.md describe each half and show the demo outcome for: no edit, only A, only B, both.\n'
 ' * Mutant 2 must need a DEEP, SPECIFIC history to manifest: at least three distinct phases that have to happen in order (for example: build up a particular page/segment/queue state, then an operation that is normally harmless, then a later operation that trips), '
 'or a specific count / boundary (the N-th occurrence of something, a size or index exactly at a limit, an operation right after a particular other operation). A random mix of a few hundred allocations and frees should be unlikely to hit it by accident, '
 'but it must be something a real program can legitimately do through the public API.\n'
 'Both must look like plausible commits (an optimisation, a refactoring, a clean-up), not like sabotage.\n\n')
assert 'Task: produce TWO different, independent source changes' in s
s=s.replace('Task: produce TWO different, independent source changes', add+'Task: produce TWO different, independent source changes',1)
left=re.findall(r'/tmp/wt/%s(?![\w-]).{0,12}'%id, s); assert not left, left
open('/tmp/wt/%s/TASK.md'%wt,'w').write(s)
