#!/bin/sh
# false-alarm soak: every quick check with several seeds on the current tree; prints one line per (seed, check)
SEEDS=${SEEDS:-"2 3 4"}; TIER=${TIER:-quick}
CHECKS=${CHECKS:-"C01 C02 C03 C04 C05 C06 C07 C08 C09 C10 C11 C12 C13 C14 C15 C16 C17 C18 C19 C20"}
for s in $SEEDS; do for id in $CHECKS; do
  out=$(VERIF_SEED=$s ./vcheck run $id --tier $TIER 2>&1); rc=$?
  echo "seed=$s $id rc=$rc $(echo "$out" | grep -E '^(OK|VIOLATION)' | head -2 | tr '\n' ' ')"
  if [ $rc -ne 0 ]; then echo "$out" | tail -5; fi
done; done
