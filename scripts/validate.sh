#!/bin/sh
# validate MANIFEST.json and all evidence files against the schemas (uses the tooling venv's jsonschema)
python3-vt - <<'PY'
import json, jsonschema, glob
jsonschema.validate(json.load(open('/verif/MANIFEST.json')), json.load(open('/root/.vp/MANIFEST.schema.json'))); print('MANIFEST ok')
es = json.load(open('/root/.vp/EVIDENCE.schema.json'))
for f in sorted(glob.glob('/verif/evidence/*.json')):
    jsonschema.validate(json.load(open(f)), es); print(f, 'ok')
PY
