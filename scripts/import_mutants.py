#!/usr/bin/env python3
# import_mutants.py <json-file>: entries {"prop":"C08","wt":"C08c","m":"m1","breaks":"..","needs":"..","checks":["C08"],"batch":"third batch (concurrency only)"}
import os,shutil,json,glob,sys,re
ROOT=os.path.dirname(os.path.dirname(os.path.abspath(__file__)))
for e in json.load(open(sys.argv[1])):
    p=e["prop"]; existing=[int(re.search(r'-m(\d+)$',d).group(1)) for d in glob.glob(os.path.join(ROOT,"seeded",p+"-m*"))]
    k=max(existing+[0])+1; dst=os.path.join(ROOT,"seeded","%s-m%d"%(p,k)); src="/tmp/wt/%s/seeded/%s"%(e["wt"],e["m"])
    os.makedirs(dst,exist_ok=True)
    for f in glob.glob(src+"/*"):
        if os.path.isfile(f) and os.path.getsize(f) < 300000 and (not os.access(f, os.X_OK) or f.endswith(".sh")): shutil.copy(f,dst)
    res=open("/tmp/wt/confirm_%s_%s.txt"%(e["wt"],e["m"])).read().strip().splitlines()[-1]
    assert "suite=pass" in res and "demo_clean_rc=0" in res and "demo_with_patch_rc=0" not in res, (e, res)
    json.dump({"property":p,"breaks":e["breaks"],"needs_to_manifest":e["needs"],"checks":e["checks"],"origin":"independent sub-agent given only the property text and a scratch worktree ("+e.get("batch","")+")","confirmed_by_me":"scripts/confirm_mutant.sh in the scratch worktree: "+res},open(os.path.join(dst,"meta.json"),"w"),indent=1)
    print(os.path.basename(dst))
