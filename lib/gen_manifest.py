#!/usr/bin/env python3
"""Writes /verif/MANIFEST.json from lib/checks.py + lib/manifest_meta.py."""
import json, os, sys
ROOT = os.path.dirname(os.path.dirname(os.path.abspath(__file__)))
sys.path.insert(0, os.path.join(ROOT, "lib"))
from checks import CHECKS
from manifest_meta import META, NOT_APPLICABLE, HOOK_COMMITS

checks = []
for pid in sorted(CHECKS):
    m = META[pid]
    checks.append({
        "property_id": pid,
        "quick_cmd": "./vcheck run %s --tier quick" % pid,
        "thorough_cmd": "./vcheck run %s --tier thorough" % pid,
        "evidence_file": "/verif/evidence/%s.json" % pid,
        "replay_cmd_template": "./vcheck replay %s {path}" % pid,
        "engine": m.get("engine", "choice-stream engine + forked executor"),
        "level_claimed": {"category": CHECKS[pid]["level"], "text": m["text"], "design_ref": m["design_ref"]},
        "level_note": m["note"],
        "technique": m["technique"],
    })
man = {
    "version": 1,
    "setup_cmd": "./vcheck setup",
    "hooks": {
        "guard": "MI_VERIF_HOOKS",
        "enable": "-DMI_VERIF_HOOKS='\"/verif/hooks/mi_verif_hooks.h\"' on the compiler command line of the sched-* variants (vcheck build); all other variants need no source hook (OS shim via -Dmmap=vf_mmap ... macro renames)",
        "baseline_off_cmd": "/verif/scripts/baseline.sh",
        "source_commits": HOOK_COMMITS,
        "add_only": True,
    },
    "engines": [
        {"name": "choice-stream engine + forked executor", "path": "/verif/engine/eng.hpp", "serves_properties": sorted(CHECKS), "kind_free_text": "property-based testing: typed draws from a seeded/fuzzer byte stream -> textual IR -> executed in a fresh forked process against an explicit oracle; delta-debugging shrinker on the IR; replay files"},
        {"name": "deterministic scheduler", "path": "/verif/harness/sched.cc", "serves_properties": ["C02", "C08", "C09", "C10", "C14"], "kind_free_text": "virtual threads (real pthreads, one runs at a time); scheduling points at every mi_atomic operation through the MI_VERIF_HOOKS header; generated preemptions / priorities / spurious weak-CAS failures; hang detection"},
        {"name": "OS shim", "path": "/verif/engine/vf_shim.c", "serves_properties": ["C07", "C11", "C13", "C15", "C18"], "kind_free_text": "fault injection / recording of mmap, munmap, mprotect, madvise; virtual clock; seeded getrandom"},
    ],
    "checks": checks,
    "not_applicable": NOT_APPLICABLE,
    "notes": "See DESIGN.md. Checks rebuild every variant from /repo's working tree (hash-stamped). known-findings.txt lists repaired defects (fixed:) and recorded findings (known:).",
}
json.dump(man, open(os.path.join(ROOT, "MANIFEST.json"), "w"), indent=1)
print("MANIFEST.json: %d checks, %d not_applicable" % (len(checks), len(NOT_APPLICABLE)))
