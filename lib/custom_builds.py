"""Builds that do not follow the 'static.c + harness' scheme."""
import os, json, subprocess


def build_custom(name, v, out, log, REPO, ROOT, sh, tree_hash, repo_hash):
    if name == "opts-fuzz":
        stamp = tree_hash([os.path.join(ROOT, "harness", "opts.c"), os.path.join(ROOT, "harness", "opts_fuzz.c"), os.path.join(ROOT, "harness", "opts_fuzz_driver.py"), os.path.join(ROOT, "engine")], repo_hash() + json.dumps(v, sort_keys=True))
        stamp_file = os.path.join(out, "stamp"); exe = os.path.join(out, "opts-fuzz")
        if os.path.exists(stamp_file) and open(stamp_file).read() == stamp and os.path.exists(exe):
            return exe, stamp
        ren = ["-Dmmap=vf_mmap", "-Dmunmap=vf_munmap", "-Dmprotect=vf_mprotect", "-Dmadvise=vf_madvise", "-Dclock_gettime=vf_clock_gettime", "-Dsyscall=vf_syscall"]
        steps = [["gcc", "-O2", "-c", os.path.join(ROOT, "engine", "vf_shim.c"), "-o", os.path.join(out, "shim.o")],
                 ["clang", "-O1", "-g", "-w", "-DNDEBUG", "-DMI_STAT=2", "-fsanitize=fuzzer,address,bounds", "-fno-sanitize-recover=bounds", "-fno-omit-frame-pointer"] + ren +
                 ["-I" + os.path.join(REPO, "include"), "-I" + os.path.join(REPO, "src"), "-I" + os.path.join(ROOT, "harness"), "-DVF_REPO_STATIC_C=\"" + os.path.join(REPO, "src", "static.c") + "\"",
                  os.path.join(ROOT, "harness", "opts_fuzz.c"), os.path.join(out, "shim.o"), "-o", os.path.join(out, "opts_fuzz_bin"), "-lpthread"]]
        for s in steps:
            r = sh(s)
            if r.returncode != 0:
                log("BUILD FAILED (opts-fuzz): %s\n%s" % (" ".join(s), r.stdout[-3000:])); return None, None
        open(exe, "w").write("#!/bin/sh\nexec python3 %s %s \"$@\"\n" % (os.path.join(ROOT, "harness", "opts_fuzz_driver.py"), os.path.join(out, "opts_fuzz_bin")))
        os.chmod(exe, 0o755); open(stamp_file, "w").write(stamp)
        return exe, stamp
    if name != "ovr":
        log("unknown custom build " + name); return None, None
    stamp = tree_hash([os.path.join(ROOT, "harness", "ovr")], repo_hash() + json.dumps(v, sort_keys=True))
    stamp_file = os.path.join(out, "stamp"); exe = os.path.join(out, "ovr")
    if os.path.exists(stamp_file) and open(stamp_file).read() == stamp and os.path.exists(exe):
        return exe, stamp
    cm = os.path.join(out, "cmake")
    # exactly the targets the repository's own build produces: libmimalloc.so and mimalloc.o (static override object)
    steps = [["cmake", "-G", "Ninja", "-S", REPO, "-B", cm, "-DCMAKE_BUILD_TYPE=RelWithDebInfo", "-DMI_BUILD_TESTS=OFF"],
             ["cmake", "--build", cm, "--target", "mimalloc", "mimalloc-obj-target"]]
    src = os.path.join(ROOT, "harness", "ovr", "ovr_prog.cc"); obj = os.path.join(cm, "mimalloc.o")
    # the copy step that produces mimalloc.o only has an order dependency on the object target: an incremental build would keep a stale copy
    if os.path.exists(obj):
        os.unlink(obj)
    steps += [["gcc", "-x", "c", "-DOVR_C", "-O1", "-g", "-w", src, "-o", os.path.join(out, "ovr_c_dyn"), "-ldl"],
              ["g++", "-O1", "-g", "-w", src, "-o", os.path.join(out, "ovr_cpp_dyn"), "-ldl"],
              ["sh", "-c", "gcc -x c -DOVR_C -O1 -g -w -c %s -o %s/ovr_c.o && gcc -rdynamic -o %s/ovr_c_static %s %s/ovr_c.o -lpthread -ldl" % (src, out, out, obj, out)],
              ["sh", "-c", "g++ -O1 -g -w -c %s -o %s/ovr_cpp.o && g++ -rdynamic -o %s/ovr_cpp_static %s %s/ovr_cpp.o -lpthread -ldl" % (src, out, out, obj, out)]]
    for s in steps:
        r = sh(s)
        if r.returncode != 0:
            log("BUILD FAILED (ovr): %s\n%s" % (" ".join(s), r.stdout[-3000:])); return None, None
    open(exe, "w").write("#!/bin/sh\nexec python3 %s %s \"$@\"\n" % (os.path.join(ROOT, "harness", "ovr", "ovr_driver.py"), out))
    os.chmod(exe, 0o755)
    open(stamp_file, "w").write(stamp)
    return exe, stamp
