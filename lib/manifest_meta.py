from checks import CHECKS
HOOK_COMMITS = []
PBT = "property-based testing: generated API histories vs. an executable shadow model, fresh process per case, IR shrinking"
META = {
 "C01": {"text": "Generated single-thread histories over all allocation/release/resize entry points, sizes 0..100 MiB, heaps, collects and helper-thread frees are executed against a shadow model that checks interval disjointness and a byte pattern over the full usable size after every step, on the release, full-debug and secure builds. Exploration is the right level: the property quantifies over unbounded histories; the check reports how many distinct non-trivial histories it ran.",
         "design_ref": "DESIGN.md §5 C01, §4.1", "note": "Trusts the shadow model (std::map interval map + pattern function) and the kernel; blocks > 1 MiB are sampled at 3 bytes per page; single platform (Linux x86-64).", "technique": PBT},
}
ALL = ["C%02d" % i for i in range(1, 21)]
NOT_APPLICABLE = [{"property_id": p, "reason": "check not built yet in this revision (planned, see DESIGN.md §10); not claimed"} for p in ALL if p not in CHECKS]
