from checks import CHECKS
HOOK_COMMITS = ["79a73b8 verif hooks: two guarded include points in atomic.h (MI_VERIF_HOOKS)"]
PBT = "property-based testing: generated API histories vs. an executable shadow model, fresh process per case, IR shrinking"
META = {
 "C01": {"text": "Generated single-thread histories over all allocation/release/resize entry points, sizes 0..100 MiB, heaps, collects and helper-thread frees are executed against a shadow model that checks interval disjointness and a byte pattern over the full usable size after every step, on the release, full-debug and secure builds. Exploration is the right level: the property quantifies over unbounded histories; the check reports how many distinct non-trivial histories it ran.",
         "design_ref": "DESIGN.md §5 C01, §4.1", "note": "Trusts the shadow model (std::map interval map + pattern function) and the kernel; blocks > 1 MiB are sampled at 3 bytes per page; single platform (Linux x86-64).", "technique": PBT},
}

NOTE_HIST = "Trusts the shadow model (interval map, byte-pattern function, heap attribution), the IR executor's respect of documented preconditions (listed as assumptions in the evidence) and the kernel; Linux x86-64 only; blocks > 1 MiB sampled."
META.update({
 "C03": {"text": "Generated (size, alignment 2^0..2^27, offset) triples through every aligned entry point on top of random prior heap states, with follow-up use of the (interior) pointers by usable_size/expand/free variants/realloc family; address arithmetic and the C01 model are the oracle, on release, debug and secure builds. Exploration: the input space is unbounded; boundary-biased generation plus measured non-trivial counts.",
         "design_ref": "DESIGN.md §5 C03", "note": NOTE_HIST, "technique": PBT},
 "C04": {"text": "Generated dirty-then-zero histories and monotone rezalloc/recalloc growth chains (writes confined to the requested size) check that requested / newly grown bytes read zero, on memory the model knows was dirtied; found and now guards the repaired rezalloc-slack defect (F2).",
         "design_ref": "DESIGN.md §5 C04, §6 F2", "note": NOTE_HIST, "technique": PBT},
 "C05": {"text": "Generated old/new size pairs across in-place, class, page-kind and huge boundaries through every realloc-family entry point (heap twins, aligned, count forms, expand, failing calls); prefix equality with the shadow copy, release of the old block observed through the model, NULL => old block intact.",
         "design_ref": "DESIGN.md §5 C05", "note": NOTE_HIST, "technique": PBT},
 "C06": {"text": "Generated boundary argument tuples (SIZE_MAX, PTRDIFF_MAX, MI_MAX_ALLOC_SIZE, overflowing products, bad alignments) for every allocating/re-allocating entry point inside a live history; the executor classifies must-fail calls and checks NULL/EINVAL/ENOMEM/errno/out-parameter and that the heap (live blocks + heap walk) is unchanged; well-formed requests <= 64 MiB must succeed (enforced in all hist checks).",
         "design_ref": "DESIGN.md §5 C06", "note": NOTE_HIST, "technique": PBT},
 "C10": {"text": "Generated histories over up to 6 extra heaps with delete/destroy/set_default in any order; ownership attribution swept against the model, blocks of deleted heaps stay valid, destroyed heaps take exactly their blocks. Found and now guards the repaired destroy-frees-reclaimed-pages defect (F7); one known finding (F5) is excluded by construction and demonstrated by a replay. The schedule-quantified half is decided by the scheduler harness when present.",
         "design_ref": "DESIGN.md §5 C10, §6", "note": NOTE_HIST, "technique": PBT},
 "C12": {"text": "Generated histories leaving empty/holey/full/single-block pages and interior aligned blocks, interleaved with heap walks (one third with a generated early stop); the multiset of visited ranges is compared with the model's live set per heap, incl. per-area used counts and heap descriptors.",
         "design_ref": "DESIGN.md §5 C12", "note": NOTE_HIST, "technique": PBT},
})

META.update({
 "C11": {"text": "Generated (configuration x workload shape x repetition count) cases run the workload 4-9 times in one process, each repetition ending in free-all + forced collect; the OS shim's mapping table and mincore residency are the oracle (nothing obtained directly from the OS still mapped at quiescence; mapped bytes / mapping count / resident pages do not grow between repetitions). Found and now guards two repaired defects (F1 OS regions never unmapped, F8 a new arena per > 64 MiB allocation).",
         "design_ref": "DESIGN.md §5 C11, §6 F1/F8", "note": NOTE_HIST + " The mapping table only sees mappings made through the interposed mmap/munmap of src/prim/unix/prim.c.", "technique": "property-based testing with an interposed OS layer: generated repeated workloads, footprint oracle from a recorded mapping table"},
 "C13": {"text": "A pairwise covering array over 16 commit/purge/arena/reclaim options (then random vectors) is crossed with generated C01/C03/C04/C05/C12 histories and virtual-clock ticks; all those oracles run unchanged and the OS shim additionally asserts that no purge/decommit/unmap range touches a live model block; debug/secure builds revoke access on decommit so touching decommitted memory faults.",
         "design_ref": "DESIGN.md §5 C13", "note": NOTE_HIST + " Options are applied with mi_option_set before the first allocation of the child process (not through the environment).", "technique": "property-based testing: pairwise covering array of option vectors x generated histories, OS-call policing through an interposed shim"},
})

META.update({
 "C18": {"text": "Generated purge configurations x workloads (whole pages of a surviving segment, whole segments, everything) x virtual-clock advances x ordinary activity without any forced collect; the OS shim's log of madvise/mprotect calls decides presence (delay > 0 after expiry, delay 0 at once) or total absence (delay -1) of purging per freed region. Found and now guards the repaired arena-expiry comparison defect (F3).",
         "design_ref": "DESIGN.md §5 C18, §6 F3", "note": NOTE_HIST + " An expectation is only evaluated when its premise is observable (clock beyond delay*mult, a non-forced collect or a free in the same segment happened before the memory could be handed out again).", "technique": "property-based testing with a virtual clock and an interposed OS layer: generated purge scenarios, oracle = presence/absence of purge calls per freed region"},
})

META.update({
 "C07": {"text": "For generated workloads x option settings, every position k in the measured sequence of OS calls of each kind (map, unmap, commit, protect, purge-advise) x {fail once, fail persistently} is executed in a fresh process through the OS shim (a refused commit really leaves PROT_NONE). Oracle: no crash, NULL or valid block, live blocks intact, a full recovery workload after the fault is lifted, and everything given back after free-all. Fault enumeration is the right level: the quantifier is over fault positions, which are enumerated densely (strided beyond 40/200 per kind). Found and now guards three repaired defects (F9 F10 F11).",
         "design_ref": "DESIGN.md §5 C07, §6 F9-F11", "note": NOTE_HIST + " Faults are injected at the libc boundary used by src/prim/unix/prim.c; only release and secure builds (the debug build asserts that decommit cannot fail).", "technique": "fault injection enumerated over OS-call positions (property-based workloads, interposed OS layer), model-based oracle"},
})

META.update({
 "C15": {"text": "Generated arena shapes (reserved or caller-managed with misalignment and odd sizes, exclusive or not) x histories over bound and unbound heaps, helper threads with bound heaps that exit, capacity probes and fill-until-NULL; address-range oracle (inside the bound arena, never inside a foreign exclusive arena, also after adoption), NULL when full, exact capacity of an empty exclusive arena, OS-shim policing of the caller's mapping outside the managed part. Found and now guards the repaired adoption defect (F13).",
         "design_ref": "DESIGN.md §5 C15, §6 F13", "note": NOTE_HIST, "technique": "property-based testing: generated arena configurations x histories, address-range oracle + interposed OS layer"},
})

META.update({
 "C17": {"text": "A generated history receives injected misuses (second free, one foreign byte at the requested size, XOR-forged free-list link; local or remote free) at generated positions on the secure and the debug build with the error callback registered; the oracle is the delivered error code (exactly one EAGAIN / an EFAULT no later than the re-allocation) and, on the secure build, continued consistency (no address twice, nothing outside the heap regions, C01 model for the rest of the history). One known finding (F14: delayed-free list links are not validated) is excluded by construction and demonstrated by a replay.",
         "design_ref": "DESIGN.md §5 C17", "note": NOTE_HIST + " The same-area escape (a forged value decoding into the same page) is avoided by construction of the forged value instead of being classified white-box.", "technique": "property-based testing with injected API misuse; oracle = error callback codes + shadow model"},
})

SCHED_TECH = "property-based testing over (program, schedule) pairs with a deterministic scheduler: every mi_atomic operation is a scheduling point (guarded header hook), all single preemptions enumerated per program, multi-preemption schedules and spurious weak-CAS failures sampled; shadow-model oracle between scheduling points"
NOTE_SCHED = "Trusts the scheduler (real pthreads run one at a time, baton hand-off), the hook header (each wrapper evaluates its pointer argument once; a spurious weak-CAS failure reports the current value) and the shadow model. Sequentially consistent interleavings at atomic-operation granularity only; 2-3 threads, <= ~60 operations per program. Linux x86-64."
META.update({
 "C02": {"text": "Small generated multi-threaded programs (allocate into shared slots, free blocks of any thread, collect) are run under generated schedules with the scheduler owning every atomic operation of the allocator; the shadow model is evaluated atomically between scheduling points (no overlap with any live block, contents intact), plus end-of-run emptiness, hang detection and no allocator error report.",
         "design_ref": "DESIGN.md §5 C02, §4.3", "note": NOTE_SCHED, "technique": SCHED_TECH, "engine": "deterministic scheduler + choice-stream engine"},
 "C08": {"text": "(a) Owner/remote-free programs under generated schedules: once every block has been freed (by whichever thread) and the owner force-collects, its heap must report no used block. (b) Bounded producer/consumer runs of 600-2500 rounds: the number of areas of the producing heap stays below live pages + one clean-up period + slack, independent of the number of rounds.",
         "design_ref": "DESIGN.md §5 C08", "note": NOTE_SCHED + " Liveness is only claimed in the bounded form 'after an explicit forced collect at quiescence' / 'area count bounded over the run'.", "technique": SCHED_TECH, "engine": "deterministic scheduler + choice-stream engine"},
 "C09": {"text": "Programs in which threads end (mi_thread_done, scheduled) with live blocks while other threads free them, allocate (reclaim) and collect, under reclaim-on-free / OS-segment / visit-abandoned / reclaim-percentage options and generated schedules. Oracle: model across threads (a doubly adopted page would hand out overlapping blocks), and at quiescence nothing remains: main heap empty, abandoned walk empty, no OS segment mapped. Found and now guards a repaired racy debug assertion (F15).",
         "design_ref": "DESIGN.md §5 C09", "note": NOTE_SCHED + " Real pthread_exit-driven termination (unscheduled) is covered by the helper threads of the hist harness.", "technique": SCHED_TECH, "engine": "deterministic scheduler + choice-stream engine"},
 "C14": {"text": "Two levels under generated schedules: raw bitmap claim/release scripts against a reference bit set (claimed ranges disjoint and in range; at the end every field equals pre-claimed | held), and a shared 2-4 GiB exclusive arena in which threads allocate/free 1-5 segment blocks with purging racing allocation (blocks disjoint, inside the arena; afterwards the arena is again allocatable completely).",
         "design_ref": "DESIGN.md §5 C14", "note": NOTE_SCHED + " The bitmap level calls _mi_bitmap_try_find_from_claim_across / _mi_bitmap_unclaim_across directly (non-static internal symbols).", "technique": SCHED_TECH, "engine": "deterministic scheduler + choice-stream engine"},
})
META["C10"]["text"] += " Schedule-quantified half: heap delete / collect racing remote frees under the deterministic scheduler (sched-dbg, sched-rel runs of the same check)."
META["C10"]["note"] += " " + NOTE_SCHED
ALL = ["C%02d" % i for i in range(1, 21)]
NOT_APPLICABLE = [{"property_id": p, "reason": "check not built yet in this revision (planned, see DESIGN.md §10); not claimed"} for p in ALL if p not in CHECKS]
