"""Runner for harnesses that explore on their own and print one JSON summary (pure, opts, ovr)."""
import os, json, time, subprocess, hashlib


def custom_run(pid, cfg, tier, seed, G):
    ROOT, STATE, build_variant = G["ROOT"], G["STATE"], G["build_variant"]
    t0 = time.time()
    outdir = os.path.join(STATE, "out", pid); os.makedirs(outdir, exist_ok=True)
    os.makedirs(os.path.join(STATE, "evidence"), exist_ok=True)
    known, _ = G["load_known"]()
    known = [k for k in known if k.get("property") == pid]
    total = {"evaluations": 0, "distinct_nontrivial": 0, "classes": {}, "samples": [], "per_variant": {}, "exhaustive": None}
    violations, builds, inconclusive, known_lines = [], {}, [], []
    for run in cfg["runs"]:
        vn = run["variant"]
        exe, stamp = build_variant(vn, print)
        if exe is None:
            print("ERROR: cannot build variant %s" % vn); return 2
        builds[vn] = stamp
        # committed replays first
        import glob
        for rp in sorted(glob.glob(os.path.join(ROOT, "replays", pid, "*.case"))):
            base = os.path.basename(rp)
            if base.startswith("only-") and not base.startswith("only-" + vn + "-"):
                continue
            r = subprocess.run(run.get("pre", []) + [exe, "--replay", rp] + run.get("args", []), stdout=subprocess.PIPE, stderr=subprocess.DEVNULL, text=True, env=dict(os.environ, **run.get("env", {})))
            total["evaluations"] += 1
            kn = [k for k in known if k.get("replay") == "replays/%s/%s" % (pid, base)]
            if r.returncode == 1:
                if kn:
                    if not any(base in kl for kl in known_lines):
                        known_lines.append("KNOWN-FINDING: property=%s %s [replay %s on %s still fails]" % (pid, kn[0].get("what", ""), base, vn))
                else:
                    violations.append((rp, (r.stdout.strip().splitlines() or [""])[-1], vn))
        cmd = run.get("pre", []) + [exe, "--tier", tier, "--seed", str(seed)] + run.get("args", [])
        asan_log = os.path.join(outdir, "sanitizer-%s" % vn)
        for old in glob.glob(asan_log + ".*"):
            os.unlink(old)
        if "ASAN_OPTIONS" in run.get("env", {}):
            run = dict(run, env=dict(run["env"], ASAN_OPTIONS=run["env"]["ASAN_OPTIONS"] + ":log_path=" + asan_log))
        try:
            r = subprocess.run(cmd, stdout=subprocess.PIPE, stderr=subprocess.PIPE, text=True, timeout=cfg.get("timeout_s", {"quick": 600, "thorough": 7200})[tier], env=dict(os.environ, VERIF_TIER=tier, **run.get("env", {})))
        except subprocess.TimeoutExpired:
            inconclusive.append("%s: time limit reached" % vn); continue
        line = (r.stdout.strip().splitlines() or [""])[-1]
        try:
            d = json.loads(line)
        except Exception:
            # the harness died (sanitizer report / crash): that is a violation of a memory-safety property, reproduced below
            crash = os.path.join(outdir, "%s-crash-seed%d.case" % (vn, seed))
            open(crash, "w").write("# property=%s variant=%s\n# harness exited with code %d without a summary; rerun: %s\n# stderr tail:\n%s\n" % (pid, vn, r.returncode, " ".join(cmd), "\n".join("# " + l for l in (r.stderr.strip().splitlines() + sum([open(f).read().splitlines()[:30] for f in glob.glob(os.path.join(outdir, "sanitizer-%s.*" % vn))], []))[-40:])))
            rs = [subprocess.run(cmd, stdout=subprocess.PIPE, stderr=subprocess.PIPE, text=True, env=dict(os.environ, VERIF_TIER=tier, **run.get("env", {}))).returncode for _ in range(2)]
            if all(x != 0 for x in rs):
                violations.append((crash, "harness crashed (exit %d): %s" % (r.returncode, (r.stderr.strip().splitlines() or [""])[-1][:300]), vn))
            else:
                inconclusive.append("%s: crash not reproduced" % vn)
            continue
        total["evaluations"] += d["evaluations"]; total["distinct_nontrivial"] += d["distinct_nontrivial"]
        for k, v in d.get("classes", {}).items():
            total["classes"][k] = total["classes"].get(k, 0) + v
        if len(total["samples"]) < 8:
            total["samples"] += d.get("samples", [])[:8 - len(total["samples"])]
        total["per_variant"][vn] = {"evaluations": d["evaluations"], "distinct_nontrivial": d["distinct_nontrivial"], "violations": d["violations"]}
        total["exhaustive"] = d.get("exhaustive", False) if total["exhaustive"] is None else (total["exhaustive"] and d.get("exhaustive", False))
        for v in d.get("violation_list", [])[:3]:
            text = v["replay"] + "\n"
            path = os.path.join(outdir, "%s-%s.case" % (vn, hashlib.sha1(text.encode()).hexdigest()[:12]))
            open(path, "w").write("# property=%s variant=%s\n# %s\n%s" % (pid, vn, v["msg"].replace("\n", " "), text))
            ok = all(subprocess.run(run.get("pre", []) + [exe, "--replay", path] + run.get("args", []), stdout=subprocess.DEVNULL, stderr=subprocess.DEVNULL, env=dict(os.environ, **run.get("env", {}))).returncode == 1 for _ in range(3))
            if ok:
                violations.append((path, v["msg"], vn))
            else:
                inconclusive.append("unreproduced: " + v["msg"][:200])
    for kl in known_lines:
        print(kl)
    wall = time.time() - t0
    cov = {"evaluations": total["evaluations"], "distinct_nontrivial": total["distinct_nontrivial"], "rule": cfg["rule"],
           "samples": total["samples"] or ["(none)"], "classes": total["classes"], "per_variant": total["per_variant"], "builds": builds, "inconclusive": inconclusive,
           "known_findings_reported": known_lines}
    if total["exhaustive"]:
        cov["exhaustive"] = True
        cov["exhaustive_note"] = cfg.get("exhaustive_note", "")
    ev = {"property_id": pid, "tier": tier, "seed": seed, "level": cfg["level"], "coverage": cov, "assumptions": cfg.get("assumptions", []), "wall_s": round(wall, 2), "violations": len(violations)}
    json.dump(ev, open(os.path.join(STATE, "evidence", pid + ".json"), "w"), indent=1)
    if violations:
        for path, msg, vn in violations:
            print("VIOLATION property=%s replay=%s" % (pid, path)); print("  variant=%s %s" % (vn, msg))
        return 1
    print("OK property=%s tier=%s evaluations=%d distinct_nontrivial=%d wall=%.1fs" % (pid, tier, cov["evaluations"], cov["distinct_nontrivial"], wall))
    return 0
