# Check table: which harness/mode/variant decides which property, case counts per tier, the stated
# non-triviality rule and assumptions (copied into the evidence file).

HIST = {"harness": "hist", "harness_src": "hist.cc"}
VARIANTS = {
    # what the repository's own test-suite builds: release, no padding
    "rel": dict(HIST, mi_flags=["-O2", "-DNDEBUG", "-DMI_BUILD_RELEASE"], harness_flags=[]),
    # full internal invariant checking, padding canaries, encoded free lists, decommit = PROT_NONE
    "dbg": dict(HIST, mi_flags=["-O1", "-g", "-DMI_DEBUG=3"], harness_flags=["-DVF_PADDING", "-DVF_DEBUG_BUILD"], aux_src=["forge_helper.c"]),
    # hardened release build
    "sec": dict(HIST, mi_flags=["-O2", "-DNDEBUG", "-DMI_SECURE=4"], harness_flags=["-DVF_PADDING", "-DVF_SECURE_BUILD"], aux_src=["forge_helper.c"]),
}

SCHED = {"harness": "sched", "harness_src": "sched.cc"}
HOOK = ["-DMI_VERIF_HOOKS=\"/verif/hooks/mi_verif_hooks.h\"", "-DMI_STAT=0"]
VARIANTS["sched-dbg"] = dict(SCHED, mi_flags=["-O1", "-g", "-DMI_DEBUG=2"] + HOOK, harness_flags=["-DVF_DEBUG_BUILD"])
VARIANTS["sched-rel"] = dict(SCHED, mi_flags=["-O2", "-DNDEBUG"] + HOOK, harness_flags=[])

COMMON_ASSUME = [
    "Linux x86-64, 4 KiB OS pages, glibc; mimalloc compiled as the single TU src/static.c from /repo's working tree",
    "OS calls, clock and getrandom reach the kernel through the vf_* shim (pass-through unless a case arms it)",
    "blocks > 1 MiB are written/verified at 3 offsets per OS page (in full one time in eight)",
    "absence of violations is established only for the generated cases (see coverage)",
]

def hist_check(mode, rule, runs, level="exploration", budget=None, assumptions=None):
    return {"level": level, "rule": rule, "runs": [dict(r, mode=mode) for r in runs],
            "budget_s": budget or {"quick": 75, "thorough": 900}, "assumptions": COMMON_ASSUME + (assumptions or [])}

def R(variant, q, t, weight=1.0):
    return {"variant": variant, "cases": {"quick": q, "thorough": t}, "weight": weight}

CHECKS = {
    "C01": hist_check("C01",
        "cases = generated single-thread API histories (20-160 IR ops, macro ops expand to up to ~10^4 calls) over every allocation/"
        "release/resize entry point, heaps, collects and helper-thread frees, executed in a fresh process against a shadow model "
        "(interval disjointness + byte pattern over the full usable size). Non-trivial = the history re-used a freed address AND saw a "
        "page become full or a page being freed AND had >= 8 blocks live. Distinct = hash of the IR text (per build variant).",
        [R("rel", 6000, 120000, 2.0), R("dbg", 2500, 40000, 1.0), R("sec", 2500, 40000, 1.0)]),
}

CHECKS["C04"] = hist_check("C04",
    "cases = dirty-then-zero histories and monotone rezalloc/recalloc growth chains (writes confined to the requested size); "
    "oracle: requested bytes of every zero-initialising allocation and every byte between the previous and the new requested size of a "
    "grown zero-initialised block read 0. Non-trivial = a checked zero range lay in memory the model knows was filled with non-zero bytes "
    "and freed earlier in the same case. Distinct = hash of the IR text (per build variant).",
    [R("rel", 5000, 100000, 2.0), R("dbg", 2000, 30000, 1.0), R("sec", 2000, 30000, 1.0)])

CHECKS["C03"] = hist_check("C03",
    "cases = histories biased to the aligned entry points: alignment 2^k (k=0..27), offsets {0,8,16,n/2,n-1,n,n+8,a-8,a,random}, all size "
    "classes, prior heap state from a random prefix; follow-ups (usable/expand/free variants/realloc family with the block's own alignment/"
    "re-allocation of the same class). Oracle: (p+o)%a==0, usable>=n, minimum alignment 16 (n>=16) / 8, alignment kept by re-allocation "
    "with the same alignment+offset, plus the C01 model. Non-trivial = an over-aligned (a>16) or offset-aligned block was allocated AND a "
    "freed address was re-used in the same case. Distinct = hash of the IR text (per build variant).",
    [R("rel", 5000, 100000, 2.0), R("dbg", 2000, 30000, 1.0), R("sec", 2000, 30000, 1.0)],
    assumptions=["debug build only: offsets that are not a multiple of 8 are excluded (MI_DEBUG>0 rejects non-word-aligned pointers by design); counted as excluded_by_guard",
                 "re-allocation alignment is asserted only when the call passes the block's own alignment (and offset), as the property states"])

CHECKS["C05"] = hist_check("C05",
    "cases = histories biased to the realloc family (every entry point incl. heap twins onto other heaps, aligned variants, mi_expand, "
    "count*size forms) with new sizes drawn around 0, n/2, n, usable size, class/page-kind/huge edges. Oracle: usable>=new size, first "
    "min(old requested,new) bytes equal the shadow copy, old block leaves the model exactly when a different pointer is returned (the new "
    "block must be disjoint from every live one), NULL result => old block intact (freed for reallocf), expand never moves and succeeds "
    "iff n<=usable (no-padding build). Non-trivial = the case contained at least one in-place AND one moving re-allocation whose contents "
    "were verified. Distinct = hash of the IR text (per build variant).",
    [R("rel", 5000, 100000, 2.0), R("dbg", 2000, 30000, 1.0), R("sec", 2000, 30000, 1.0)])

CHECKS["C06"] = hist_check("C06",
    "cases = a normal history interleaved with `edge` calls whose arguments are drawn around SIZE_MAX-k, PTRDIFF_MAX+-k, MI_MAX_ALLOC_SIZE+-k, "
    "count*size products of 2^64-1/2^64/2^64+d/(2^32+d)^2, SIZE_MAX/size+{0,1}, alignments {0,3,24,2^k+-1,2^63,SIZE_MAX}, for every allocating and "
    "re-allocating entry point. The executor (not the generator) classifies each call as must-fail. Oracle: NULL / EINVAL / ENOMEM / errno as "
    "documented, out-parameter sentinel untouched, old block of a failing re-allocation intact, all live blocks verify and a heap walk of every heap "
    "reports exactly the model's live set afterwards. Non-trivial = a must-fail call was checked while >= 8 blocks were live. Distinct = hash of the IR text.",
    [R("rel", 16000, 300000, 2.0), R("dbg", 6000, 80000, 1.0), R("sec", 8000, 80000, 1.0)],
    assumptions=["requests between 64 MiB and PTRDIFF_MAX may succeed or fail depending on the OS; 1 GiB..2^47 and zeroing requests > 64 MiB are not issued (they would really map/clear terabytes); counted as excluded_by_guard",
                 "mi_new/mi_new_n/mi_new_aligned abort by design in the C build when no new-handler is installed: generated only for sizes that must succeed",
                 "memalign/aligned_alloc with alignment 0 excluded in the debug build only (its assertion expression divides by the alignment)",
                 "realloc_aligned family: alignment 0 is a stated precondition (mi_assert); non-power-of-two alignments <= sizeof(void*) are documented as plain re-allocation; larger ones may be served in place"])

CHECKS["C10"] = hist_check("C10",
    "cases = histories with up to 6 extra heaps (mi_heap_new, tagged/destroyable mi_heap_new_ex, arena-bound), allocation through explicit-heap and "
    "default-heap API, set_default, delete, destroy in any order, helper-thread frees. Oracle: after delete every block verifies and stays freeable "
    "(re-homed to the backing heap when compatible), after destroy the heap's blocks leave the model and everything else verifies; a sampled sweep "
    "asserts mi_heap_contains_block / mi_heap_check_owned / mi_check_owned == (model home == heap) after every heap op and every 32 ops; default "
    "falls back to the backing heap. Non-trivial = a heap holding >= 2 live blocks was deleted or destroyed while another heap held live blocks. "
    "Distinct = hash of the IR text. The concurrent half (delete/collect racing remote frees) is decided by the scheduler harness.",
    [R("rel", 24000, 400000, 2.0), R("dbg", 8000, 100000, 1.0), R("sec", 10000, 100000, 1.0)],
    assumptions=["never deletes/destroys the backing heap; mi_heap_destroy only on heaps created with allow_destroy (mi_assert preconditions)",
                 "a tagged heap is not deleted while it holds live blocks (reclaiming a tagged page on a thread without a heap of that tag is reported as an error by design)",
                 "known finding F5: blocks stranded by deleting an arena-bound heap are not freed by the owner thread again (excluded by construction, demonstrated by a committed replay)"])

CHECKS["C12"] = hist_check("C12",
    "cases = histories that leave pages empty, with hole patterns (every 2nd/3rd/4th/7th, first/last only), exactly full, single-block, with interior "
    "aligned blocks and helper-thread frees (followed by a non-forced collect), interleaved with mi_heap_visit_blocks walks of every heap, one third with "
    "a generated stop index. Oracle: every model block homed in the heap lies in exactly one visited range that encloses its usable bytes, no range holds "
    "two live blocks, unmatched ranges are heap descriptors in the backing heap (exact count), per-area used == blocks reported in that area; an early stop (false returned at the k-th block call or at the k-th area call, heap walks and abandoned walks) is followed by "
    "no further visitor call and a false result, and takes nothing away from the walk that follows. Non-trivial = a walk covered an area with holes and a full/single-block area and >= 64 blocks were "
    "visited. Distinct = hash of the IR text.",
    [R("rel", 24000, 400000, 2.0), R("dbg", 8000, 100000, 1.0), R("sec", 10000, 100000, 1.0)])

CHECKS["C13"] = hist_check("C13",
    "cases = option vector x history x virtual time: the first rows are a greedy pairwise covering array over 16 commit/purge/arena/reclaim options "
    "(purge_delay {-1,0,1,10}, purge_decommits, purge_extend_delay, eager_commit, eager_commit_delay, arena_eager_commit, disallow_arena_alloc, "
    "arena_reserve {32M,64M,1G}, arena_purge_mult, abandoned_reclaim_on_free, abandoned_page_purge, target_segments_per_thread, max_segment_reclaim, "
    "deprecated_page_reset, generic_collect, allow_large_os_pages), later vectors are random; options are set before the first allocation; histories mix "
    "the C01/C03/C04/C05/C12 generators with `tick` ops on the virtual clock. Oracle: the C01/C03/C04/C05/C12 oracles unchanged, plus (OS shim) every "
    "madvise(DONTNEED|FREE), mprotect(PROT_NONE) and munmap range issued by the allocator intersects no live model block, plus (debug/secure builds, where "
    "decommit revokes access) no fault. Non-trivial = a purge/decommit/unmap call was observed while >= 8 blocks were live. Distinct = hash of the IR text "
    "(which includes the option vector).",
    [R("rel", 5000, 100000, 2.0), R("dbg", 2000, 30000, 1.0), R("sec", 2000, 30000, 1.0)],
    assumptions=["transparent huge pages are disabled at the OS level (prctl) in the harness process; allow_large_os_pages still toggles the allocator's code path"])

CHECKS["C11"] = hist_check("C11",
    "cases = (configuration x workload x repetitions): arenas default / disallow_arena_alloc / arena_reserve 32-64 MiB, purge_delay {10,0,1,-1}; workload shapes "
    "small, large pages, huge and multi-segment huge, aligned-huge (alignment >= 32 MiB), > 34 segments, > 32 exited helper threads, mixed, each followed by a "
    "random history; the body is executed 4-9 times in one process, each repetition ending in free-all, heap deletes and mi_collect(true). Oracle A (OS shim mapping "
    "table at quiescence): no non-arena mapping > 64 KiB remains, <= 40 small bookkeeping mappings, and with purging enabled no resident page inside arenas. Oracle B: "
    "mapped bytes, mapping count (exact) and resident pages (16-page tolerance) do not grow from repetition i-1 to i for i >= 3. Non-trivial = the workload made the "
    "allocator obtain at least one region directly from the OS besides arena reservations. Distinct = hash of the IR text.",
    [R("rel", 3000, 60000, 2.0), R("dbg", 800, 15000, 1.0)],
    assumptions=["resident pages are measured with mincore over the mappings recorded by the shim (private anonymous memory)", "with purge_decommits=0 (MADV_FREE) residency is not asserted"])

CHECKS["C18"] = hist_check("C18",
    "cases = purge_delay {-1,0,5,10} x purge_decommits {0,1} x arena_purge_mult {1,10} (x eager_commit_delay) x workloads that free whole pages of a segment that stays in "
    "use (blocks 64 KiB-4 MiB), whole segments (blocks 17-60 MiB) and/or everything; then the virtual clock is advanced past delay*mult + 100 ms per free + 1 s, followed "
    "by 1-3 rounds of ordinary activity (one more free in the same segment, a large and a huge alloc+free, mi_collect(false), more ticks). No forced collect anywhere. "
    "Oracle from the OS shim's log of madvise(DONTNEED|FREE)/mprotect(PROT_NONE): delay>0: every freed watched region is hit by a purge call by the end; delay=0: by the "
    "time the freeing call returned; delay=-1: no purge call at all in the whole case. Non-trivial = the case freed at least one whole segment and one page of a surviving "
    "segment and all expectations were evaluated. Distinct = hash of the IR text.",
    [R("rel", 14000, 200000, 2.0), R("dbg", 5000, 60000, 1.0)],
    assumptions=["purge by reset (purge_decommits=0) is only promised for fully committed ranges: those cases set eager commit options so the expectation is what the code documents",
                 "only the presence/absence of purge calls per freed region is asserted, not the amount purged nor that a purge does not come early"])

CHECKS["C07"] = hist_check("C07",
    "cases = workload x option setting x fault position: 6 workload shapes (small churn, filled pages, huge + aligned-huge, heaps new/delete/destroy, helper threads that exit, "
    "arena-bound heap) x {default; lazy commit everywhere; purge_delay=0; disallow_arena_alloc; arena_reserve=64 MiB}; each workload is first run fault-free to count its OS "
    "calls per kind (mmap, munmap, commit-mprotect, protect-mprotect, purge-madvise) up to the recovery point, then EVERY position k below that count (dense up to 40/200, "
    "strided beyond) x {fail once, fail from k on} is one case in a fresh process. Oracle: no crash/assert; every API call returns NULL or a block that passes the C01 checks "
    "(a refused commit really leaves PROT_NONE, so handing it out faults); live blocks keep their contents; after the shim grants requests again a fixed recovery workload over "
    "all size classes, a new heap and a fresh thread must succeed completely; after free-all + forced collect the heap reports no used block and no non-arena region remains "
    "mapped (minus regions whose munmap the shim refused), nor any additional mapping of the size of a thread's metadata (that size is learned by behaviour in a throw-away child: the small "
    "mapping that appears once a thread has run and disappears at mi_collect(true)). Non-trivial = the armed fault was hit and at least one API call returned NULL because of it. Distinct = hash of the IR text.",
    [R("rel", 1600000, 12000000, 2.0), R("sec", 800000, 6000000, 1.0)], level="fault_enumeration",
    assumptions=["debug build not used: mi_os_decommit_ex asserts that the OS call cannot fail (debug-only statement)", "faults are injected at the libc call boundary of src/prim/unix/prim.c (mmap/munmap/mprotect/madvise)"])

CHECKS["C15"] = hist_check("C15",
    "cases = arena shapes x histories: 1-2 arenas from mi_reserve_os_memory_ex (64-192 MiB, commit 0/1, exclusive 0/1) or mi_manage_os_memory_ex on the middle part of a "
    "larger harness mapping with misalignment {0,4K,64K,1M,31M} and odd/too small sizes; heaps bound to them (mi_heap_new_in_arena / mi_heap_new_ex) next to the backing heap and "
    "mi_heap_new heaps on one thread; bound heaps are filled with segment-sized blocks until NULL, freed, refilled; helper threads with an arena-bound heap exit leaving live "
    "blocks, followed by allocation from unbound and bound heaps. Oracle: a block from a heap bound to arena A lies inside mi_arena_area(A); a block from any heap not bound to an "
    "exclusive arena E never intersects E (also after adoption); NULL (never an outside address) when A is full; an empty arena accepts exactly block_count one-block allocations; "
    "mi_arena_area is inside the region handed to mi_manage_os_memory_ex and no mprotect/madvise/munmap touches the caller's mapping outside it; plus the C01 model. Non-trivial = "
    "an unbound heap allocated while a live block existed in an exclusive arena, or a bound heap returned NULL after a capacity probe. Distinct = hash of the IR text.",
    [R("rel", 16000, 200000, 2.0), R("dbg", 6000, 60000, 1.0)],
    assumptions=["requests of more than one arena block are only asserted to lie inside the arena, not to succeed"])

CHECKS["C17"] = hist_check("C17",
    "cases = a normal history with injected misuses at generated positions (error callback registered, nothing aborts): (a) second free of a thread-local block whose "
    "area keeps another live block, with 0-8 allocations of another class in between; (b) one byte v in 1..255 (not 0xDE) written at offset = requested size of an "
    "unmodified, unaligned block <= 1 MiB, then freed locally or by a helper thread; (c) the first word of a freed block (freed locally or remotely) XOR-ed with a generated "
    "non-zero 64-bit value, then the class is allocated until the block comes back. Oracle: (a) exactly one EAGAIN during the second free and none before; (b) EFAULT during "
    "the free; (c) EFAULT no later than the allocation returning the block; no other error code; secure build: afterwards 1-2x page-capacity allocations of that class never "
    "return an address twice, never overlap a live block, always lie inside the heap regions, and the history continues under the C01 oracle; debug build: the case stops "
    "after the detection. Non-trivial = at least one misuse was injected and detected with >= 8 blocks live. Distinct = hash of the IR text.",
    [R("sec", 30000, 300000, 1.0), R("dbg", 12000, 90000, 1.0)],
    assumptions=["a forged link that decodes into the same page (probability about 2^-47 per case) would be followed by design; not classified white-box, treated as undetected if it ever happened",
                 "blocks whose requested size changed (in-place realloc/expand), aligned or zero-chain blocks are not used for the overflow misuse: their canary does not sit at the requested size"])

SCHED_ASSUME = [
    "interleavings are sequentially consistent at the granularity of mimalloc's atomic operations (plus spurious weak-CAS failures); weaker hardware orderings and races on plain fields are outside what the scheduler produces",
    "virtual threads are real pthreads run one at a time; every virtual thread ends with mi_thread_done() while scheduled (what the pthread-key destructor calls)",
    "programs have 2-3 threads and at most ~60 operations; single preemptions are enumerated densely up to a cap per program and strided beyond, multi-preemption schedules are sampled; "
    "two fifths of the sampled schedules are address-directed (rules 'thread T about to make its k-th access to location X -> run U', mostly the ABA pattern on a location that three threads "
    "access) and some let allocator yields return without progress of the other threads",
    "a step or spin limit hit is recorded as inconclusive (skipped), never as a violation",
]
def sched_check(mode, rule, q, t, budget=None):
    return {"level": "exploration", "rule": rule, "runs": [dict(R("sched-dbg", q, t, 1.0), mode=mode), dict(R("sched-rel", q, t, 1.0), mode=mode)],
            "budget_s": budget or {"quick": 60, "thorough": 900}, "assumptions": COMMON_ASSUME[:2] + SCHED_ASSUME}

CHECKS["C02"] = sched_check("C02",
    "cases = (program, schedule): programs of 2-3 threads from a grammar (allocate a class into a shared slot, free a slot allocated by any thread, collect, verify; classes 16 B-1 MiB "
    "so that pages fill at once or are single-block), ordered by a global rank so that waits cannot cycle; per program: the baseline, every single preemption (step x target thread; dense "
    "then strided), sampled 2-5 preemption schedules biased to steps on addresses shared between threads, random priorities and 1-3 spurious weak-CAS failures. Oracle: shadow model "
    "evaluated between scheduling points (a new block overlaps no live block of any thread, contents intact at free/verify), no allocator error report, no crash/assert, no livelock, "
    "and at the end nothing is left in any heap. Non-trivial = a thread was preempted inside an allocator call and, before it resumed, another thread performed a write/RMW on an "
    "atomic location that the preempted call also accesses. Distinct = hash of (program IR + schedule).",
    90000, 1500000)

CHECKS["C08"] = sched_check("C08",
    "cases = (program, schedule). (a) quiescence programs: an owner thread allocates blocks of classes that fill pages (16 B-1 MiB; single-block pages sit in the full queue at once), "
    "1-2 other threads free them in generated order while the owner interleaves malloc/free/collect; schedules as in C02 (all single preemptions, sampled multi-preemption schedules "
    "biased to shared addresses, spurious weak-CAS failures). Oracle: after everything was freed by whichever thread and the owner force-collects, its heap reports no used block; at the "
    "very end nothing is left anywhere (main-thread collect, abandoned walk, no OS segment mapped). (b) bounded producer/consumer runs of 600-2500 rounds with at most 1/4/16/64 blocks of 16 B-100 KiB in "
    "flight (generic_collect raised so that the periodic collect cannot mask a leak): the number of areas of the producing heap, sampled 20 times over the run, stays below "
    "ceil(live/blocks-per-page) + 100 (one period of the every-100-generic-allocations clean-up) + 32, independent of the number of rounds. (c) keeper rounds: the owner posts blocks of one size class of its own heap to 1-2 helper threads; per round early "
    "remote frees into a not-yet-full page, fill the page of a keeper block, remote-free all but the keeper; reuse probe at quiescence: after a non-forced collect the owner allocates exactly as many "
    "blocks as the heap's area report says still fit and the heap must not take a fresh page for them; at the end the heap holds no area. Non-trivial = (a) a remote free happened, the §4.3 conflict rule holds (preempted inside a call + conflicting "
    "write by another thread) and the quiescence clause was evaluated, or (b) a producer/consumer run of >= 600 rounds completed, or (c) a block was remote-freed into a page the heap reported full and a reuse probe with room > 0 was evaluated. Distinct = hash of (program IR + schedule).",
    60000, 1500000)

CHECKS["C09"] = sched_check("C09",
    "cases = (program, schedule): threads end (mi_thread_done, scheduled) at generated positions with some of their blocks still live; other threads verify, free those blocks later, allocate "
    "(which reclaims abandoned segments) and collect; options abandoned_reclaim_on_free 0/1, disallow_arena_alloc (OS-allocated segments, abandoned_os_list), visit_abandoned, "
    "max_segment_reclaim 0/100, abandoned_page_purge; schedules as in C02. Oracle: shadow model across threads (contents survive the owner's exit, a block is never handed out while live: "
    "double adoption would show as overlap), no allocator error report; at quiescence (every block freed, main thread force-collects which reclaims all) the main heap holds no used block, "
    "mi_abandoned_visit_blocks reports nothing and no OS-allocated segment is still mapped. Non-trivial = a thread ended with live blocks and one of them was later freed by another thread "
    "(remote free into an abandoned segment / reclaim). Distinct = hash of (program IR + schedule).",
    60000, 1500000)

CHECKS["C14"] = sched_check("C14",
    "cases = (program, schedule), two levels. (a) bitmap level: a private bitmap of 2-4 fields with generated pre-claimed bits (left-over style top bits, low bits, sparse) and 2-3 threads "
    "running scripts of _mi_bitmap_try_find_from_claim_across(count in {1,2,3,...,63,64,65,70,127,128,129}) and _mi_bitmap_unclaim_across; oracle: a reference bit set updated at every "
    "successful claim/release (range inside the map, every bit free before, no overlap with any held range), and when all threads are done every field equals pre-claimed | still-held. "
    "(b) arena level: a 2-4 GiB exclusive managed arena (66-130 blocks, i.e. at least 2 bitmap fields), each thread allocates/frees blocks of 1-5 segments and small objects through an "
    "arena-bound heap with purge_delay 0/1/10 and clock ticks; oracle: blocks disjoint and inside the arena; after all frees and a forced collect the arena accepts exactly block_count "
    "one-block allocations again. Schedules as in C02. Non-trivial = a claim crossed a field boundary and the §4.3 conflict rule held. Distinct = hash of (program IR + schedule).",
    40000, 1000000)

CHECKS["C10"]["runs"] += [dict(R("sched-dbg", 30000, 600000, 1.0), mode="C10"), dict(R("sched-rel", 30000, 600000, 1.0), mode="C10")]
CHECKS["C10"]["budget_s"] = {"quick": 100, "thorough": 1200}
CHECKS["C10"]["rule"] += (" Sched runs: (program, schedule) cases in which an owner creates a heap, fills pages of it, and deletes / collects it while 1-2 other threads free blocks of that heap "
    "(schedules as in C02); oracle = C02 model + nothing lost at quiescence + no livelock; non-trivial there = the conflict rule held in a case with a heap delete/collect.")
CHECKS["C10"]["assumptions"] += SCHED_ASSUME

PURE = {"harness": "pure", "harness_src": "pure.c", "mi_as_harness_include": True}
VARIANTS["pure-rel"] = dict(PURE, mi_flags=["-O2", "-DNDEBUG", "-DMI_BUILD_RELEASE", "-w"], harness_flags=[])
VARIANTS["pure-dbg"] = dict(PURE, mi_flags=["-O1", "-g", "-DMI_DEBUG=3", "-w"], harness_flags=[])
CHECKS["C16"] = {
    "custom_run": True, "level": "exploration",
    "rule": "cases = inputs of the size-class and address arithmetic: EXHAUSTIVE over all request sizes 0..2*MI_MEDIUM_OBJ_SIZE_MAX (bin size >= n, bins monotone, waste <= 25% above 64 bytes, "
            "mi_good_size >= n, idempotent and equal to mi_usable_size(mi_malloc(n)) for all n <= 64 KiB by 65 553 real allocations on a fresh heap, and again under allocation histories: descending sweep with one live block "
            "per class, every class first used right after the next larger one, seeded random orders with a random live set), all slice counts 0..512 (span bin monotone, in range, "
            "queue capacity >= count), fast division for every bin size and multiples of 8 up to 64 KiB x every block index of a page x remainders {0,1,d-1}, and for every bin size blocks on 3 "
            "pages (+ large and huge pages of 2..700 slices) x interior offsets {0,1,15,bs/2,4096,bs-1} and, for large pages, the slice boundaries {1,2,63,64,127,128,200,254,255} x {-8,0,+100} up to MI_BLOCK_ALIGNMENT_MAX into the block: _mi_ptr_segment/_mi_ptr_page/_mi_page_ptr_unalign must recover the page and the block start; "
            "GENERATED (seeded, around powers of two, SIZE_MAX, PTRDIFF_MAX): _mi_align_up/_mi_align_down/_mi_divide_up/_mi_clamp/_mi_wsize_from_size/mi_mul_overflow/mi_count_size_overflow/"
            "mi_clz/mi_ctz/mi_bsr/mi_popcount against unsigned __int128 / naive-loop references. Non-trivial = a size where the bin changes, a power-of-two slice count, a non-power-of-two "
            "divisor or block size at a non-zero interior offset, or a generated operand on a stated boundary (multiple/one-off of the alignment, product within 2^-20 of 2^64, popcount <=1 or "
            ">=63); generated operands are deduplicated with a hash set, enumerated ones are distinct by construction.",
    "exhaustive_note": "the enumerated parts are complete for their finite domains; the generated 64-bit operands are sampled",
    "runs": [{"variant": "pure-rel"}, {"variant": "pure-dbg"}],
    "assumptions": ["the harness #includes src/static.c to reach static functions and tables (observation only)", "Linux x86-64; 64-bit size classes only"],
}

OPTS = {"harness": "opts", "harness_src": "opts.c", "mi_as_harness_include": True}
VARIANTS["opts-asan"] = dict(OPTS, cc="clang", mi_flags=["-O1", "-g", "-DNDEBUG", "-DMI_STAT=2", "-fsanitize=address,bounds", "-fno-sanitize-recover=bounds", "-fno-omit-frame-pointer", "-w"], harness_flags=[], link_flags=["-fsanitize=address,bounds"])
VARIANTS["opts-rel"] = dict(OPTS, mi_flags=["-O2", "-DNDEBUG", "-DMI_BUILD_RELEASE", "-w"], harness_flags=[])
CHECKS["C20"] = {
    "custom_run": True, "level": "exploration",
    "rule": "cases = (a) option index (all 37) x name spelling (upper/lower/mixed, legacy name) x value: exhaustive small forms (every boolean spelling, digits 0..999 x unit spellings K/M/G/T "
            "with iB/B and lower case) and generated values: well-formed per the grammar bool | [+-]?digits | digits(K|M|G|T)(iB|B)? with up to 25 digits (overflow of long/size_t) and, one time in six, left-padded with zeros to 62/63/64 characters (64 = the longest value that is read completely), malformed by "
            "mutation (inserted/replaced bytes incl. '=', non-ASCII, 0x.., words, 65-8000 character values), environments of up to 10 010 entries; the option is reset to {default, UNINIT}, "
            "environ is pointed at the generated vector and mi_option_get is called; reference parser: booleans -> 0/1, integers -> strtol semantics with saturation, size options in KiB (unit "
            "applied, bytes rounded up to KiB, saturated at MI_MAX_ALLOC_SIZE/KiB / LONG_MAX); malformed -> value == compiled default and the option is not marked as set; (b) mi_option_set/get/"
            "get_clamp/get_size/is_enabled/set_default/enable/disable for all options x boundary long values; (c) _mi_snprintf with formats generated from the supported grammar (%[+ ][-][0]"
            "[width][z|t|l|ll|L](d|i|u|x|p|s)), unsupported and truncated specs, strings of 0-4 KiB, exactly sized heap buffers of 0-600 bytes incl. sizes within +-2 of the formatted length; "
            "_mi_strlcpy/_mi_strlcat for all (fill, size, length) up to 80; the message functions with arguments longer than their 512-byte buffer; (d) mi_stats_get_json for every buffer size "
            "1..full+2 (exact heap buffers) and (0,NULL), mi_stats_print_out / mi_thread_stats_print_out / mi_options_print / mi_arenas_print with statistics values up to +-2^62, and the 16 KiB "
            "delayed output buffer flooded before an output function is registered. Oracle besides the reference values: AddressSanitizer / -fsanitize=bounds clean (variant opts-asan), every "
            "buffer terminated inside its size, return value < size and == strlen. Non-trivial = value longer than 16 characters or with a unit suffix, a malformed value, a buffer size within +-2 "
            "of the formatted length or a format with width, a boundary option value. Generated inputs are deduplicated by hash.",
    "runs": [{"variant": "opts-asan", "env": {"ASAN_OPTIONS": "detect_leaks=0:abort_on_error=0:exitcode=99"}}, {"variant": "opts-rel"}],
    "assumptions": ["values that are substrings of '1;TRUE;YES;ON' / '0;FALSE;NO;OFF' other than the documented spellings, values with leading white space and the form '<digits>B' are accepted by the implementation (strstr / strtol) and are neither generated as well-formed nor asserted as malformed (counted as ambiguous_values_not_asserted)",
                    "values longer than the 64-byte copy and environments beyond the documented 10 000-entry scan are only checked for memory safety",
                    "formatted content (digits, padding) is not asserted; the property is about totality and memory safety",
                    "the harness #includes src/static.c to reset the static option table between in-process cases"],
}

VARIANTS["ovr"] = {"custom": True}
CHECKS["C19"] = {
    "custom_run": True, "level": "exploration",
    "rule": "cases = tuples (allocating entry point A, size/alignment, optional resize R, releasing entry point F) executed by a program that does not link mimalloc's API, in four configurations: "
            "{C, C++} x {LD_PRELOAD=libmimalloc.so, mimalloc.o linked first}, both artefacts built by cmake from the current tree like the repository's own build. A in {malloc, calloc, "
            "realloc(NULL), posix_memalign, aligned_alloc, memalign, valloc, pvalloc, reallocarray(NULL), strdup, strndup, realpath(.,NULL), operator new / new[] (plain, nothrow, align_val_t, "
            "align_val_t+nothrow), std::vector and std::string buffers}; R in {none, realloc grow, realloc shrink, reallocarray}; F in {free, cfree, realloc-then-free, operator delete / delete[] "
            "(plain, sized, align_val_t, sized+align_val_t, nothrow)}. The full A x F matrix is enumerated for 12 size representatives (0 B .. 40 MB), then tuples are generated. Oracle: every "
            "result satisfies mi_is_in_heap_region (looked up with dlsym), malloc_usable_size == mi_usable_size >= n, the alignment the standard prescribes, calloc memory is zero, contents survive "
            "the resize, a further malloc works after the release, posix_memalign returns EINVAL/ENOMEM without touching its out-parameter, reallocarray/calloc overflow -> NULL (errno ENOMEM), "
            "nothrow new of an impossible size -> NULL, and the process exits 0; plus three system programs (ls -lR, a python3 JSON round trip, sort -n on 20 000 generated numbers) must produce "
            "byte-identical output with and without the preload. Non-trivial = A and F belong to different API families (C vs C++) or the resize moved the block. Tuples are distinct by "
            "construction in the matrix part; generated tuples are counted as executed.",
    "runs": [{"variant": "ovr"}],
    "timeout_s": {"quick": 900, "thorough": 7200},
    "assumptions": ["glibc on Linux x86-64: only the entry points this libc declares are enumerated (cfree / reallocarray looked up with dlsym)",
                    "the throwing operator new with an impossible size is not generated: the C-compiled library documents abort() when no new-handler is installed"],
}

CHECKS["C09"]["runs"] += [dict(R("rel", 8000, 150000, 1.0), mode="C09"), dict(R("dbg", 3000, 50000, 0.6), mode="C09")]
CHECKS["C09"]["budget_s"] = {"quick": 100, "thorough": 1200}
CHECKS["C09"]["rule"] += (" Hist runs (real, unscheduled thread exit): single-thread histories in which helper threads allocate and really exit (pthread exit), half of them after "
    "joining one of two extra sub-processes (mi_subproc_add_current_thread as their first action), with visit_abandoned=1, reclaim-on-free / OS segments / 100%% reclaim options; the main thread "
    "then allocates, frees the foreign blocks, force-collects and takes a census. Oracle: the C01 model; a block left behind in another sub-process is never reported by a heap walk or the "
    "abandoned walk of the main sub-process and is reported exactly once by mi_abandoned_visit_blocks of its own sub-process; non-trivial there = a helper thread exited with live blocks and "
    "the main thread freed one of them or visited abandoned blocks.")

VARIANTS["opts-fuzz"] = {"custom": True}
CHECKS["C20"]["runs"].append({"variant": "opts-fuzz"})
CHECKS["C20"]["rule"] += (" Additionally a libFuzzer target (clang -fsanitize=fuzzer,address,bounds) decodes coverage-guided bytes into the same checks (environment values for all options, format seeds "
    "and buffer sizes, strlcpy/strlcat triples, JSON buffer sizes, option API values) with the semantic oracle inside the target; its executions are added to evaluations and the inputs that added "
    "coverage to the corpus are counted as distinct non-trivial cases; a crash artifact is the replay file.")

# ---- generator elements added while strengthening against the seeded changes (batches 2-5); appended to the rule texts
CHECKS["C01"]["rule"] += (" Scenarios drawn besides the random steps: a size class shared by over-aligned and plain blocks over several pages (holes, refill, frees of the aligned blocks); "
    "a queue cycle (page A full, page B head, A back behind B, B exhausted, emptied and released, another class takes a fresh page, the class again); one time in four abandoned_reclaim_on_free=1.")
CHECKS["C13"]["rule"] += (" One time in 25 an arena with more than 64 blocks (arena_reserve=4GiB) holding 66-72 sparsely touched huge blocks whose highest ones are freed and purged.")
CHECKS["C15"]["rule"] += (" Adoption-pressure scenario: a helper thread with an arena-bound heap exits with live blocks, optionally one of them is freed by the main thread, an unbound heap takes 100-190 "
    "blocks of 1 MiB and then the size class left behind; one time in three abandoned_reclaim_on_free=1.")
CHECKS["C17"]["rule"] += (" Double frees also with the first free made by another thread; forged links also with a target chosen outside the area (white-box input helper, black-box oracle); overflow also "
    "on blocks left behind by ended threads (tiny-block scenario, one time in three abandoned_reclaim_on_free=1).")
CHECKS["C18"]["rule"] += (" Histories have 1-3 free/delay/activity/expect cycles; freed segments are sometimes taken again at once and kept across the expiry; one time in five everything lives in memory "
    "handed over with mi_manage_os_memory_ex (committed or not) through an arena-bound heap.")
CHECKS["C08"]["rule"] += (" Keeper programs may start with the only block of the only page freed remotely, drain the delayed list through >= 100 generic allocations of another size (never collecting), "
    "delete their heap half-way (absorbed pages) or run with target_segments_per_thread; producer/consumer runs end with the reuse probe and also use about one page plus one block in flight.")
CHECKS["C11"]["rule"] += (" One time in four the thread's own segments are force-abandoned (target_segments_per_thread, mi_collect_reduce). The creep clause is strict for memory outside arenas; for arena "
    "reservations growth in two or more repetitions after the warm-up is the violation (known finding F18: a single late step).")
CHECKS["C12"]["rule"] += (" Helper threads sometimes leave a huge block (own segment) behind; one time in four abandoned_reclaim_on_free=1.")

# additions after the sixth batch of seeded changes (two cooperating sites / deep specific history)
CHECKS["C01"]["rule"] += (" The program's deferred-free callback (mi_register_deferred_free) is exercised: `defer` parks blocks with it and the allocator frees them "
                          "from inside a later generic allocation or collect; the string/environment duplicating entry points (mi_mbsdup, mi_wcsdup, mi_dupenv_s, mi_realpath) are "
                          "allocation entry points too, and mi_malloc_size / mi_malloc_usable_size / mi_malloc_good_size must agree with mi_usable_size / mi_good_size.")
CHECKS["C03"]["rule"] += (" Aligned-thread scenario: a helper thread leaves 2-40 over-aligned blocks (interior pointers) behind, the main thread adopts the pages (forced collect, "
                          "fresh-segment need, or not at all), frees every 2nd-4th of them locally and re-allocates the class.")
CHECKS["C06"]["rule"] += (" Oversized sizes are also combined with alignments up to 128 MiB; a failing mi_reallocarray / mi_reallocarr is also called with errno holding a stale "
                          "code (ENOMEM must replace it).")
CHECKS["C08"]["rule"] += (" Keeper rounds sometimes post exactly one block of a page that was just filled (every block live, page in the full queue) and run the reuse probe.")
CHECKS["C11"]["rule"] += (" Two more workload shapes: a 4 GiB arena (two bitmap fields) with 66-72 sparsely touched huge blocks freed in rounds over virtual time, everything freed "
                          "inside the body; and helper threads that leave segments behind on the sub-process OS list (block aligned to 64/128 MiB) and in the arena bitmaps in turn.")
CHECKS["C12"]["rule"] += (" Blocks may be parked with the deferred-free callback; every collect that a walk needs happens before the first walk of a census.")
CHECKS["C19"]["rule"] += (" Alignments of 64/128 MiB (segments mapped straight from the OS, above the 48 TiB that mi_is_in_heap_region covers: identified by the agreement of the "
                          "two usable-size functions) through every aligned entry point; reallocarray failing with a stale errno.")
CHECKS["C20"]["rule"] += (" mi_option_set_enabled(_default), the legacy mi_stats_print(out), mi_stats_merge and mi_process_info with any subset of its out-parameters are called as well.")
