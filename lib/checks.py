# Check table: which harness/mode/variant decides which property, case counts per tier, the stated
# non-triviality rule and assumptions (copied into the evidence file).

HIST = {"harness": "hist", "harness_src": "hist.cc"}
VARIANTS = {
    # what the repository's own test-suite builds: release, no padding
    "rel": dict(HIST, mi_flags=["-O2", "-DNDEBUG", "-DMI_BUILD_RELEASE"], harness_flags=[]),
    # full internal invariant checking, padding canaries, encoded free lists, decommit = PROT_NONE
    "dbg": dict(HIST, mi_flags=["-O1", "-g", "-DMI_DEBUG=3"], harness_flags=["-DVF_PADDING", "-DVF_DEBUG_BUILD"]),
    # hardened release build
    "sec": dict(HIST, mi_flags=["-O2", "-DNDEBUG", "-DMI_SECURE=4"], harness_flags=["-DVF_PADDING", "-DVF_SECURE_BUILD"]),
}

COMMON_ASSUME = [
    "Linux x86-64, 4 KiB OS pages, glibc; mimalloc compiled as the single TU src/static.c from /repo's working tree",
    "OS calls, clock and getrandom reach the kernel through the vf_* shim (pass-through unless a case arms it)",
    "blocks > 1 MiB are written/verified at 3 offsets per OS page (in full one time in eight)",
    "absence of violations is established only for the generated cases (see coverage)",
]

def hist_check(mode, rule, runs, level="exploration", budget=None, assumptions=None):
    return {"level": level, "rule": rule, "runs": [dict(r, mode=mode) for r in runs],
            "budget_s": budget or {"quick": 75, "thorough": 900}, "assumptions": COMMON_ASSUME + (assumptions or [])}

def R(variant, q, t, weight=1.0):
    return {"variant": variant, "cases": {"quick": q, "thorough": t}, "weight": weight}

CHECKS = {
    "C01": hist_check("C01",
        "cases = generated single-thread API histories (20-160 IR ops, macro ops expand to up to ~10^4 calls) over every allocation/"
        "release/resize entry point, heaps, collects and helper-thread frees, executed in a fresh process against a shadow model "
        "(interval disjointness + byte pattern over the full usable size). Non-trivial = the history re-used a freed address AND saw a "
        "page become full or a page being freed AND had >= 8 blocks live. Distinct = hash of the IR text (per build variant).",
        [R("rel", 6000, 120000, 2.0), R("dbg", 2500, 40000, 1.0), R("sec", 2500, 40000, 1.0)]),
}
