// Manual triage aid (not part of any check): dump the page queues of a heap. Compile with the same -D flags as the variant's mi.o and
// link it into a harness binary; the sched harness calls vf_dump_heap (weak) before it reports `not-reused`.
#include <stdio.h>
#include "mimalloc.h"
#include "mimalloc/internal.h"
static size_t list_len(mi_page_t* page, mi_block_t* b) { size_t n = 0; while (b != NULL && n < 100000) { n++; b = mi_block_next(page, b); } return n; }
void vf_dump_heap(mi_heap_t* heap) {
  fprintf(stderr, "heap %p page_count=%zu delayed=%p\n", (void*)heap, heap->page_count, (void*)mi_atomic_load_ptr_relaxed(mi_block_t, &heap->thread_delayed_free));
  for (size_t i = 0; i <= MI_BIN_FULL; i++) {
    for (mi_page_t* p = heap->pages[i].first; p != NULL; p = p->next) {
      mi_thread_free_t tf = mi_atomic_load_relaxed(&p->xthread_free);
      fprintf(stderr, "  bin %3zu%s page %p bsize=%zu used=%u cap=%u res=%u in_full=%d tf_flag=%d tf_len=%zu free=%zu local=%zu retire=%u\n", i, i == MI_BIN_FULL ? "(full)" : "", (void*)p, mi_page_block_size(p), (unsigned)p->used, (unsigned)p->capacity, (unsigned)p->reserved,
              (int)mi_page_is_in_full(p), (int)(tf & 3), list_len(p, (mi_block_t*)(tf & ~(uintptr_t)3)), list_len(p, p->free), list_len(p, p->local_free), (unsigned)p->retire_expire);
    }
  }
}
